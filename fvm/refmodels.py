"""Independent NumPy reference models of the leaf operators (float64).

Each model maps (operator, input pytree) to the expected output pytree leaves, written from the
documented semantics (NumPy indexing, moveaxis, reshape, einsum, broadcasting, banded Toeplitz
product, Mueller matrices) and not from the library's implementation.
"""

from __future__ import annotations

import math
from typing import Any, Callable

import jax
import numpy as np


class NotModelled(Exception):
    pass


def P(op: Any, name: str, attr: str | None = None) -> Any:
    """Parameter ``name`` as the client passed it to the constructor (recorded at the boundary by the
    constructor monitor); falls back to the stored attribute for operators built by the library."""
    from .core import client_args

    rec = client_args(op)
    if rec is not None and name in rec and rec[name] is not None:
        return rec[name]
    return getattr(op, attr or name)


def _tuple(v: Any) -> tuple[Any, ...]:
    return v if isinstance(v, tuple) else (v,)


def _wide(l: Any) -> np.ndarray:
    a = np.asarray(l)
    return a.astype(np.complex128) if np.iscomplexobj(a) else a.astype(np.float64)


def np_leaves(x: Any) -> list[np.ndarray]:
    return [_wide(l) for l in jax.tree.leaves(x)]


def np_index(indices: tuple[Any, ...]) -> tuple[Any, ...]:
    out = []
    for i in indices:
        if i is Ellipsis or isinstance(i, (int, slice)) or i is None:
            out.append(i)
        else:
            out.append(np.asarray(i))
    return tuple(out)


# ---- indexing ------------------------------------------------------------------------------------


def ref_index(op: Any, x: Any) -> list[np.ndarray]:
    idx = np_index(_tuple(P(op, 'indices')))
    return [l[idx] for l in np_leaves(x)]


def ref_index_T(op: Any, y: Any) -> list[np.ndarray]:
    """Transpose of an index operator: scatter-add of y into zeros of the input shape."""
    idx = np_index(_tuple(P(op, 'indices')))
    outs = []
    for l, yl in zip(jax.tree.leaves(P(op, 'in_structure', '_in_structure')), np_leaves(y)):
        z = np.zeros(l.shape)
        np.add.at(z, idx, yl)
        outs.append(z)
    return outs


def ref_pack(op: Any, x: Any) -> list[np.ndarray]:
    mask = np.asarray(P(op, 'mask'))
    return [l[mask] for l in np_leaves(x)]


# ---- axes ----------------------------------------------------------------------------------------


def ref_moveaxis(op: Any, x: Any) -> list[np.ndarray]:
    src, dst = P(op, 'source'), P(op, 'destination')
    src = tuple(src) if not isinstance(src, int) else src
    dst = tuple(dst) if not isinstance(dst, int) else dst
    return [np.moveaxis(l, src, dst) for l in np_leaves(x)]


def ref_ravel(op: Any, x: Any) -> list[np.ndarray]:
    outs = []
    first, last = P(op, 'first_axis'), P(op, 'last_axis')
    for l in np_leaves(x):
        f = first + l.ndim if first < 0 else first
        la = last + l.ndim if last < 0 else last
        outs.append(l.reshape(l.shape[:f] + (-1,) + l.shape[la + 1:]))
    return outs


def ref_reshape(op: Any, x: Any) -> list[np.ndarray]:
    return [np.reshape(l, tuple(P(op, 'shape'))) for l in np_leaves(x)]


def ref_reshape_T(op: Any, y: Any) -> list[np.ndarray]:
    return [np.reshape(yl, l.shape) for yl, l in zip(np_leaves(y), jax.tree.leaves(op.operator.in_structure()))]


# ---- diagonal ------------------------------------------------------------------------------------


def diagonal_layout(values: np.ndarray, axis_destination: tuple[int, ...], leaf_ndim: int) -> tuple[np.ndarray, int]:
    """Values laid along the destination axes of a leaf of rank ``leaf_ndim``.

    Returns (array to multiply with, number of unit axes to append to the leaf).  Written with
    expand_dims/transpose: the leaf is padded with ``left`` leading and ``right`` trailing unit axes
    so that every destination axis exists; value axis k goes to padded position axis_k + left.
    """
    axes = [a if a >= 0 else leaf_ndim + a for a in axis_destination]
    if len(set(axes)) != len(axes):
        raise ValueError('duplicated axes')
    if len(axes) != values.ndim:
        raise ValueError('as many axes as value dimensions are required')
    left = -min(0, min(axes))
    right = max(0, max(axes) - leaf_ndim + 1)
    total = left + leaf_ndim + right
    pos = [a + left for a in axes]
    out = values
    # bring value axes in increasing position order, then insert unit axes elsewhere
    order = np.argsort(pos)
    out = np.transpose(out, order)
    spos = sorted(pos)
    for p in range(total):
        if p not in spos:
            out = np.expand_dims(out, p)
    return out, right


def ref_diagonal_values(op: Any) -> np.ndarray:
    if type(op).__name__ == 'DiagonalInverseOperator':
        v = ref_diagonal_values(op.operator)
    else:
        v = _wide(P(op, 'diagonal', '_diagonal'))
    if type(op).__name__ == 'DiagonalInverseOperator':
        with np.errstate(divide='ignore'):
            v = np.where(v != 0, 1.0 / np.where(v != 0, v, 1.0), 0.0)
    return v


def axis_spec(op: Any) -> tuple[int, ...]:
    """Documented expansion of axis_destination as the client gave it."""
    if type(op).__name__ == 'DiagonalInverseOperator':
        return axis_spec(op.operator)
    spec = P(op, 'axis_destination')
    vnd = np.ndim(P(op, 'diagonal', '_diagonal'))
    if isinstance(spec, int):
        return tuple(range(spec, spec + vnd)) if spec >= 0 else tuple(range(spec - vnd + 1, spec + 1))
    return tuple(spec)


def ref_diagonal(op: Any, x: Any) -> list[np.ndarray]:
    v = ref_diagonal_values(op)
    outs = []
    for l in np_leaves(x):
        lay, right = diagonal_layout(v, axis_spec(op), l.ndim)
        outs.append(lay * l.reshape(l.shape + (1,) * right))
    return outs


# ---- dense einsum --------------------------------------------------------------------------------


def ref_dense(op: Any, x: Any) -> list[np.ndarray]:
    from furax.tree import is_leaf

    xs = np_leaves(x)
    blocks, subs = P(op, 'blocks'), P(op, 'subscripts').replace(' ', '')
    if is_leaf(blocks):
        b = _wide(blocks)
        return [np.einsum(subs, b, l) for l in xs]
    bs = np_leaves(blocks)
    return [np.einsum(subs, b, l) for b, l in zip(bs, xs)]


# ---- Toeplitz ------------------------------------------------------------------------------------


def toeplitz_matrix(n: int, band: np.ndarray) -> np.ndarray:
    k = band.shape[-1]
    i, j = np.indices((n, n))
    d = np.abs(i - j)
    return np.where(d < k, band[np.minimum(d, k - 1)], 0.0)


def ref_toeplitz(op: Any, x: Any) -> list[np.ndarray]:
    xl = _wide(x)
    band = _wide(P(op, 'band_values'))
    n = xl.shape[-1]
    batch = np.broadcast_shapes(xl.shape[:-1], band.shape[:-1])
    xb = np.broadcast_to(xl, batch + (n,))
    bb = np.broadcast_to(band, batch + (band.shape[-1],))
    out = np.empty(batch + (n,), dtype=np.result_type(xb, bb))
    for idx in np.ndindex(*batch):
        out[idx] = toeplitz_matrix(n, bb[idx]) @ xb[idx]
    return [out]


# ---- polarimetry ---------------------------------------------------------------------------------


def _stokes_parts(x: Any) -> tuple[str, dict[str, np.ndarray]]:
    kind = type(x).stokes
    return kind, {c: _wide(getattr(x, c.lower())) for c in kind}


def ref_hwp(op: Any, x: Any) -> list[np.ndarray]:
    kind, p = _stokes_parts(x)
    sign = {'I': 1.0, 'Q': 1.0, 'U': -1.0, 'V': -1.0}
    return [sign[c] * p[c] for c in kind]


def _rot(angles: np.ndarray, x: Any, sign: float) -> list[np.ndarray]:
    kind, p = _stokes_parts(x)
    if 'Q' not in kind:
        return [p[c] for c in kind]
    a = np.asarray(angles, dtype=np.float64)
    c2, s2 = np.cos(2 * a), np.sin(2 * a) * sign
    q = p['Q'] * c2 - p['U'] * s2
    u = p['Q'] * s2 + p['U'] * c2
    out = {**p, 'Q': q, 'U': u}
    return [np.broadcast_to(out[c], np.broadcast_shapes(out[c].shape, q.shape)) if c in 'QU' else out[c] for c in kind]


def ref_qurot(op: Any, x: Any) -> list[np.ndarray]:
    return _rot(P(op, 'angles'), x, +1.0)


def ref_qurot_T(op: Any, x: Any) -> list[np.ndarray]:
    return _rot(P(op.operator, 'angles'), x, -1.0)


def ref_polarizer(op: Any, x: Any) -> list[np.ndarray]:
    kind, p = _stokes_parts(x)
    i = p.get('I', 0.0)
    q = p.get('Q', 0.0)
    return [0.5 * (i + q)]


def ref_identity(op: Any, x: Any) -> list[np.ndarray]:
    return np_leaves(x)


def ref_homothety(op: Any, x: Any) -> list[np.ndarray]:
    k = complex(np.asarray(P(op, 'value'))) if np.iscomplexobj(np.asarray(P(op, 'value'))) else float(np.asarray(P(op, 'value')))
    return [k * l for l in np_leaves(x)]


# ---- result dtypes (NumPy/JAX promotion of the stored parameters with each leaf) --------------------


def _same(op: Any, leaf: Any, i: int) -> Any:
    return leaf.dtype


def _promoted_with(name: str, attr: str | None = None) -> Callable[[Any, Any, int], Any]:
    def rule(op: Any, leaf: Any, i: int) -> Any:
        import jax.numpy as jnp
        o = op.operator if type(op).__name__ == 'DiagonalInverseOperator' else op
        v = P(o, name, attr)
        if not hasattr(v, 'dtype'):
            vs = jax.tree.leaves(v)
            if len(vs) <= i or not hasattr(vs[i], 'dtype'):
                return None
            v = vs[i] if len(vs) > 1 else vs[0]
        if type(op).__name__ == 'DiagonalInverseOperator' and not np.issubdtype(np.dtype(v.dtype), np.inexact):
            return None
        return jnp.result_type(v, leaf)
    return rule


def _toeplitz_dtype(op: Any, leaf: Any, i: int) -> Any:
    return leaf.dtype if np.issubdtype(np.dtype(leaf.dtype), np.floating) else None


DTYPE_RULES: dict[str, Callable[[Any, Any, int], Any]] = {
    'IndexOperator': _same, 'PackOperator': _same, 'MoveAxisOperator': _same, 'RavelOperator': _same, 'ReshapeOperator': _same,
    'ReshapeTransposeOperator': _same, 'HomothetyOperator': _same, 'HWPOperator': _same,
    'DiagonalOperator': _promoted_with('diagonal', '_diagonal'), 'BroadcastDiagonalOperator': _promoted_with('diagonal', '_diagonal'),
    'DiagonalInverseOperator': _promoted_with('diagonal', '_diagonal'),
    'DenseBlockDiagonalOperator': _promoted_with('blocks'),
    'SymmetricBandToeplitzOperator': _toeplitz_dtype,
}


MODELS: dict[str, tuple[str, Callable[[Any, Any], list[np.ndarray]]]] = {
    'HomothetyOperator': ('C02', ref_homothety),
    'IndexOperator': ('C12', ref_index),
    'PackOperator': ('C12', ref_pack),
    'MoveAxisOperator': ('C13', ref_moveaxis),
    'RavelOperator': ('C13', ref_ravel),
    'ReshapeOperator': ('C13', ref_reshape),
    'ReshapeTransposeOperator': ('C13', ref_reshape_T),
    'DiagonalOperator': ('C11', ref_diagonal),
    'BroadcastDiagonalOperator': ('C11', ref_diagonal),
    'DiagonalInverseOperator': ('C11', ref_diagonal),
    'DenseBlockDiagonalOperator': ('C14', ref_dense),
    'SymmetricBandToeplitzOperator': ('C09', ref_toeplitz),
    'HWPOperator': ('C15', ref_hwp),
    'QURotationOperator': ('C15', ref_qurot),
    'QURotationTransposeOperator': ('C15', ref_qurot_T),
    'LinearPolarizerOperator': ('C15', ref_polarizer),
}
