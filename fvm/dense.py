"""Reference densifier and comparison helpers (the monitors' own dense form of an operator).

Independent of every ``as_matrix`` override: the matrix is obtained by applying ``op.mv`` to the
basis vectors of the flattened input pytree (leaves in ``jax.tree.flatten`` order, row-major) and
flattening the outputs the same way, cast to float64 NumPy.
"""

from __future__ import annotations

import math
from typing import Any

import jax
import jax.numpy as jnp
import numpy as np

from .core import LOG, OracleError

MAX_DENSE = 1 << 14
_xcheck_counter = [0]


def leaves(tree: Any) -> list[Any]:
    return jax.tree.leaves(tree)


def size_of(struct: Any) -> int:
    return sum(int(math.prod(l.shape)) for l in leaves(struct))


def struct_eq(a: Any, b: Any) -> bool:
    """The library's own notion of structure equality (``==`` on pytrees of ShapeDtypeStruct)."""
    try:
        return bool(a == b)
    except Exception:  # noqa: BLE001
        return False


def struct_eq_loose(a: Any, b: Any) -> bool:
    """Equality of treedef, shapes and dtypes, ignoring weak_type/sharding."""
    la, ta = jax.tree.flatten(a)
    lb, tb = jax.tree.flatten(b)
    if ta != tb or len(la) != len(lb):
        return False
    return all(
        tuple(x.shape) == tuple(y.shape) and np.dtype(x.dtype) == np.dtype(y.dtype)
        for x, y in zip(la, lb)
    )


def in_domain(*ops: Any) -> bool:
    """False when a declared structure uses a dtype that no JAX array can have in the current mode
    (float64 with 64-bit mode off): the property quantifies over inputs matching in_structure()."""
    for op in ops:
        try:
            for l in leaves(op.in_structure()) + leaves(op.out_structure()):
                if jnp.zeros((), l.dtype).dtype != np.dtype(l.dtype):
                    return False
        except Exception:  # noqa: BLE001
            return True
    return True


def struct_of(tree: Any) -> Any:
    return jax.tree.map(lambda l: jax.ShapeDtypeStruct(l.shape, l.dtype), tree)


def struct_str(s: Any) -> str:
    ls, td = jax.tree.flatten(s)
    return f'{td}:' + ','.join(f'{np.dtype(l.dtype).name}{list(l.shape)}' for l in ls)


def flatten_np(tree: Any) -> np.ndarray:
    ls = leaves(tree)
    if not ls:
        return np.zeros(0)
    return np.concatenate([np.asarray(l, dtype=np.float64).ravel() for l in ls])


def unflatten_like(struct: Any, vec: np.ndarray) -> Any:
    ls, td = jax.tree.flatten(struct)
    out = []
    pos = 0
    for l in ls:
        n = int(math.prod(l.shape))
        out.append(jnp.asarray(np.asarray(vec[pos : pos + n]).reshape(l.shape), dtype=l.dtype))
        pos += n
    return jax.tree.unflatten(td, out)


def _basis_batch(struct: Any) -> tuple[Any, int]:
    ls, td = jax.tree.flatten(struct)
    n = sum(int(math.prod(l.shape)) for l in ls)
    eye = np.eye(n)
    out = []
    pos = 0
    for l in ls:
        k = int(math.prod(l.shape))
        out.append(jnp.asarray(eye[:, pos : pos + k].reshape((n,) + tuple(l.shape)), dtype=l.dtype))
        pos += k
    return jax.tree.unflatten(td, out), n


def _matrix_loop(op: Any, struct: Any) -> np.ndarray:
    n = size_of(struct)
    cols = []
    for j in range(n):
        e = np.zeros(n)
        e[j] = 1
        cols.append(flatten_np(op.mv(unflatten_like(struct, e))))
    if not cols:
        return np.zeros((size_of(op.out_structure()), 0))
    return np.stack(cols, axis=1)


def _matrix_vmap(op: Any, struct: Any, jit: bool = False) -> np.ndarray:
    batch, n = _basis_batch(struct)
    f = jax.vmap(lambda x: op.mv(x))
    if jit:
        f = jax.jit(f)
    y = f(batch)
    ls = leaves(y)
    if not ls:
        return np.zeros((0, n))
    rows = np.concatenate([np.asarray(l, dtype=np.float64).reshape(n, -1) for l in ls], axis=1)
    return rows.T


def needs_jit(op: Any) -> bool:
    """Operators whose eager application recompiles a loop/solver at every call."""
    names = class_names(op)
    return bool(names & {'InverseOperator'}) or _has_fft_toeplitz(op)


def _has_fft_toeplitz(op: Any) -> bool:
    found = []

    def visit(o: Any) -> None:
        if type(o).__name__ == 'SymmetricBandToeplitzOperator' and o.method in (
            'fft',
            'overlap_save',
        ):
            found.append(o)

    walk(op, visit)
    return bool(found)


def _narrow_fft_kernel(op: Any) -> bool:
    found = []

    def visit(o: Any) -> None:
        if type(o).__name__ == 'SymmetricBandToeplitzOperator' and o.method in ('fft', 'overlap_save') \
                and np.dtype(o.band_values.dtype).itemsize < 8:
            found.append(o)

    walk(op, visit)
    return bool(found)


def walk(op: Any, visit: Any) -> None:
    """Visits every linear operator nested in ``op`` (operands, blocks, wrapped operators)."""
    import lineax as lx

    seen: set[int] = set()

    def rec(o: Any) -> None:
        if id(o) in seen:
            return
        seen.add(id(o))
        if isinstance(o, lx.AbstractLinearOperator):
            visit(o)
            for name in ('operands', 'blocks', 'operator'):
                if name in getattr(o, '__dict__', {}):
                    sub = getattr(o, name)
                    if type(o).__name__ == 'DenseBlockDiagonalOperator' and name == 'blocks':
                        continue
                    for leaf in jax.tree.leaves(
                        sub, is_leaf=lambda z: isinstance(z, lx.AbstractLinearOperator)
                    ):
                        rec(leaf)

    rec(op)


def class_names(op: Any) -> set[str]:
    names: set[str] = set()
    walk(op, lambda o: names.add(type(o).__name__))
    return names


def is_furax(op: Any) -> bool:
    ok = [True]

    def visit(o: Any) -> None:
        if not type(o).__module__.startswith('furax.'):
            ok[0] = False

    walk(op, visit)
    return ok[0]


def matrix(op: Any, strategy: str | None = None) -> np.ndarray:
    """Dense float64 matrix of ``op`` obtained from ``mv`` on basis vectors."""
    try:
        struct = op.in_structure()
        n = size_of(struct)
        m = size_of(op.out_structure())
    except Exception as exc:  # noqa: BLE001
        raise OracleError(f'structure: {type(exc).__name__}: {exc}') from exc
    if n * m > MAX_DENSE:
        raise OracleError('too-large')
    for l in leaves(struct):
        if not (jnp.issubdtype(l.dtype, jnp.floating) or jnp.issubdtype(l.dtype, jnp.integer)):
            raise OracleError('non-real-dtype')
        if jnp.zeros((), l.dtype).dtype != np.dtype(l.dtype):
            raise OracleError('dtype-unavailable')  # float64 declared with x64 off
    try:
        if strategy == 'loop':
            return _matrix_loop(op, struct)
        if strategy == 'jit' or (strategy is None and needs_jit(op)):
            try:
                out = _matrix_vmap(op, struct, jit=True)
                LOG.count('dense.strategy', 'jit-vmap')
                return out
            except Exception:  # noqa: BLE001 - e.g. no batching rule; use the plain loop
                LOG.count('dense.strategy', 'loop-fallback')
                return _matrix_loop(op, struct)
        try:
            mat = _matrix_vmap(op, struct)
        except Exception:  # noqa: BLE001 - e.g. an mv that cannot be batched; use the plain loop
            LOG.count('dense.strategy', 'loop-fallback')
            return _matrix_loop(op, struct)
        LOG.count('dense.strategy', 'vmap')
        _xcheck_counter[0] += 1
        if _xcheck_counter[0] % 97 == 1 and n <= 32:
            ref = _matrix_loop(op, struct)
            LOG.count('dense.strategy', 'xcheck')
            if ref.shape != mat.shape or not np.allclose(ref, mat, rtol=1e-4, atol=1e-4):
                LOG.count('dense.strategy', 'xcheck-DISAGREE')
                return ref
        return mat
    except OracleError:
        raise
    except Exception as exc:  # noqa: BLE001
        raise OracleError(f'mv: {type(exc).__name__}: {str(exc)[:200]}') from exc


# ---- tolerance classes ---------------------------------------------------------------------------

TRIG = {'QURotationOperator', 'QURotationTransposeOperator'}
SOLVER = {'InverseOperator'}


def tol_for(*ops: Any) -> float:
    """Norm-wise tolerance for comparing dense forms of the given operators."""
    names: set[str] = set()
    f64 = True
    for op in ops:
        if op is None:
            continue
        names |= class_names(op)
        try:
            for l in leaves(op.in_structure()) + leaves(op.out_structure()):
                if np.dtype(l.dtype).itemsize < 8:
                    f64 = False
        except Exception:  # noqa: BLE001
            f64 = False
    if f64 and any(_narrow_fft_kernel(op) for op in ops if op is not None):
        f64 = False          # the transform of a float32 kernel carries float32 rounding into float64 data (mixed precision)
    if names & SOLVER:
        return 5e-3
    inexact = bool(names & TRIG) or any(_has_fft_toeplitz(op) for op in ops if op is not None)
    if f64:
        return 1e-8 if inexact else 1e-10
    return 3e-4 if inexact else 2e-5


def close(a: np.ndarray, b: np.ndarray, tol: float) -> tuple[bool, float]:
    if a.shape != b.shape:
        return False, float('inf')
    if a.size == 0:
        return True, 0.0
    if not (np.all(np.isfinite(a)) and np.all(np.isfinite(b))):
        same = np.array_equal(np.isfinite(a), np.isfinite(b)) and np.allclose(
            a, b, equal_nan=True, rtol=tol, atol=tol
        )
        return bool(same), float('nan')
    err = float(np.max(np.abs(a - b)))
    scale = 1.0 + max(float(np.max(np.abs(a))), float(np.max(np.abs(b))))
    return err <= tol * scale, err / scale


def describe(op: Any, depth: int = 0) -> str:
    """Short printed form of an operator expression (class skeleton with a few parameters)."""
    import lineax as lx

    if depth > 6:
        return '…'
    name = type(op).__name__
    short = name.replace('Operator', '')
    d = getattr(op, '__dict__', {})
    if 'operands' in d:
        subs = jax.tree.leaves(op.operands, is_leaf=lambda z: isinstance(z, lx.AbstractLinearOperator))
        sep = ' @ ' if name == 'CompositionOperator' else ' + '
        return '(' + sep.join(describe(s, depth + 1) for s in subs) + ')'
    if 'blocks' in d and name != 'DenseBlockDiagonalOperator':
        ls, td = jax.tree.flatten(
            op.blocks, is_leaf=lambda z: isinstance(z, lx.AbstractLinearOperator)
        )
        cont = str(td).replace('PyTreeDef', '')
        return f'{short}[{cont}|' + ', '.join(describe(s, depth + 1) for s in ls) + ']'
    if 'operator' in d:
        return f'{short}<{describe(op.operator, depth + 1)}>'
    extra = ''
    if name == 'HomothetyOperator':
        try:
            extra = f'{float(op.value):g}'
        except Exception:  # noqa: BLE001
            extra = '?'
    elif name == 'IndexOperator':
        extra = ','.join(_idx_str(i) for i in op.indices)
    elif name == 'MoveAxisOperator':
        extra = f'{op.source}->{op.destination}'
    elif name == 'RavelOperator':
        extra = f'{op.first_axis}:{op.last_axis}'
    elif name == 'ReshapeOperator':
        extra = f'{op.shape}'
    elif name in ('DiagonalOperator', 'BroadcastDiagonalOperator', 'DiagonalInverseOperator'):
        extra = f'{tuple(op._diagonal.shape)}@{op.axis_destination}'
    elif name == 'DenseBlockDiagonalOperator':
        extra = op.subscripts
    elif name == 'SymmetricBandToeplitzOperator':
        extra = f'{op.method},K={op.band_values.shape},fft={op.fft_size}'
    elif name in ('QURotationOperator',):
        extra = f'angles{tuple(jnp.shape(op.angles))}'
    try:
        s = struct_str(op.in_structure())
    except Exception:  # noqa: BLE001
        s = '?'
    return f'{short}({extra})[{s}]'


def _idx_str(i: Any) -> str:
    if i is Ellipsis:
        return '...'
    if isinstance(i, slice):
        return f'{i.start}:{i.stop}:{i.step}'.replace('None', '')
    if isinstance(i, int):
        return str(i)
    try:
        a = np.asarray(i)
        if a.dtype == bool:
            return 'mask' + str(list(a.shape))
        return 'arr' + str(a.tolist())
    except Exception:  # noqa: BLE001
        return '?'


def skeleton(op: Any, depth: int = 0) -> str:
    """Class-name skeleton of an expression (no parameters, no shapes)."""
    import lineax as lx

    if depth > 6:
        return '…'
    name = type(op).__name__.replace('Operator', '')
    d = getattr(op, '__dict__', {})
    if 'operands' in d:
        subs = jax.tree.leaves(op.operands, is_leaf=lambda z: isinstance(z, lx.AbstractLinearOperator))
        sep = '@' if name == 'Composition' else '+'
        return '(' + sep.join(skeleton(s, depth + 1) for s in subs) + ')'
    if 'blocks' in d and name != 'DenseBlockDiagonal':
        ls, td = jax.tree.flatten(
            op.blocks, is_leaf=lambda z: isinstance(z, lx.AbstractLinearOperator)
        )
        kinds = type(op.blocks).__name__
        return f'{name}{{{kinds}:' + ','.join(skeleton(s, depth + 1) for s in ls) + '}'
    if 'operator' in d:
        return f'{name}<{skeleton(op.operator, depth + 1)}>'
    return name
