"""Typed random generator of furax operator expressions (DESIGN §2.4).

Every generated object is a pure function of the ``numpy.random.Generator`` handed in.  All
parameters are dyadic rationals of small magnitude so that index/axis/diagonal/dense/block/scalar
compositions are computed exactly in float32.
"""

from __future__ import annotations

import math
import os
import tempfile
from typing import Any, Callable

import jax
import jax.numpy as jnp
import numpy as np

from furax._base.axes import MoveAxisOperator, RavelOperator, ReshapeOperator
from furax._base.blocks import BlockColumnOperator, BlockDiagonalOperator, BlockRowOperator
from furax._base.core import (
    AbstractLinearOperator,
    AdditionOperator,
    CompositionOperator,
    HomothetyOperator,
    IdentityOperator,
)
from furax._base.dense import DenseBlockDiagonalOperator
from furax._base.diagonal import BroadcastDiagonalOperator, DiagonalOperator
from furax._base.indices import IndexOperator
from furax._base.linear import PackOperator
from furax.landscapes import (
    StokesIPyTree,
    StokesIQUPyTree,
    StokesIQUVPyTree,
    StokesPyTree,
    StokesQUPyTree,
)
from furax.operators.hwp import HWPOperator
from furax.operators.polarizers import LinearPolarizerOperator
from furax.operators.qu_rotations import QURotationOperator
from furax.operators.toeplitz import SymmetricBandToeplitzOperator

from .dense import leaves, size_of, struct_eq

SDS = jax.ShapeDtypeStruct
X64 = bool(jax.config.jax_enable_x64)
STOKES = (StokesIPyTree, StokesQUPyTree, StokesIQUPyTree, StokesIQUVPyTree)
MAX_SIZE = 24


def S(shape: tuple[int, ...], dt: Any) -> SDS:
    return SDS(tuple(shape), np.dtype(dt))


def is_sds(s: Any) -> bool:
    return isinstance(s, SDS)


def is_stokes(s: Any) -> bool:
    """A Stokes container whose components are plain array leaves."""
    if not isinstance(s, StokesPyTree):
        return False
    comps = [getattr(s, c.lower()) for c in type(s).stokes]
    return all(is_sds(c) for c in comps) and len({(tuple(c.shape), np.dtype(c.dtype)) for c in comps}) == 1


def dy(rng: np.random.Generator, shape: Any, dt: Any, *, lo: int = -8, hi: int = 8,
       denom: int = 4, nonzero: bool = False, positive: bool = False) -> jax.Array:
    """Dyadic-rational array k/denom."""
    shape = tuple(shape)
    if positive:
        k = rng.integers(1, hi + 1, size=shape)
    else:
        k = rng.integers(lo, hi + 1, size=shape)
        if nonzero:
            k = np.where(k == 0, 1, k)
    return jnp.asarray(k / denom, dtype=dt)


def pick(rng: np.random.Generator, seq: Any) -> Any:
    seq = list(seq)
    return seq[int(rng.integers(len(seq)))]


def data_dtype(s: Any) -> np.dtype:
    """Narrowest leaf dtype of a structure: parameters are never wider than the data."""
    dts = [np.dtype(l.dtype) for l in leaves(s)]
    return min(dts, key=lambda d: d.itemsize) if dts else np.dtype(np.float32)


def dtypes_available() -> list[np.dtype]:
    return [np.dtype(np.float32), np.dtype(np.float64)] if X64 else [np.dtype(np.float32)]


# ---- structure universe --------------------------------------------------------------------------


_case_dtype: list[Any] = [None]


def begin_case(rng: np.random.Generator) -> np.dtype:
    """Chooses the floating dtype used by every structure generated for the current case."""
    _case_dtype[0] = pick(rng, dtypes_available())
    return _case_dtype[0]


def case_dtype(rng: np.random.Generator) -> np.dtype:
    if _case_dtype[0] is None:
        return begin_case(rng)
    return _case_dtype[0]


def universe(rng: np.random.Generator) -> dict[str, Any]:
    dt = case_dtype(rng)
    u: dict[str, Any] = {
        'v3': S((3,), dt),
        'v4': S((4,), dt),
        'm23': S((2, 3), dt),
        'm32': S((3, 2), dt),
        'm22': S((2, 2), dt),
        'm33': S((3, 3), dt),
        't213': S((2, 1, 3), dt),
        't223': S((2, 2, 3), dt),
        'list_eq': [S((3,), dt), S((3,), dt)],
        'tuple_mixrank': (S((2, 3), dt), S((3,), dt)),
        'tuple_samefirst': (S((3, 2), dt), S((3,), dt)),
        'dict_unsorted': {'b': S((3,), dt), 'a': S((2,), dt)},
        'nested': {'b': [S((3,), dt), S((2, 2), dt)], 'a': S((2,), dt)},
        'single_list': [S((4,), dt)],
    }
    for cls in STOKES:
        u[f'stokes{cls.stokes}_3'] = cls.structure_for((3,), dt)
        u[f'stokes{cls.stokes}_23'] = cls.structure_for((2, 3), dt)
    if X64:
        u['mixed_dtype'] = {'x': S((3,), np.float32), 'y': S((2,), np.float64)}
        u['mixed_list'] = [S((2, 2), np.float64), S((2, 2), np.float32)]
    return u


def rand_struct(rng: np.random.Generator) -> Any:
    u = universe(rng)
    return u[pick(rng, sorted(u))]


def rand_input(rng: np.random.Generator, s: Any, lo: int = -8, hi: int = 8) -> Any:
    return jax.tree.map(lambda l: dy(rng, l.shape, l.dtype, lo=lo, hi=hi), s)


def common_rank(s: Any) -> int:
    return min(len(l.shape) for l in leaves(s))


# ---- atoms ---------------------------------------------------------------------------------------
# Each atom factory takes (rng, in_structure) and returns an operator or None when not applicable.


def a_identity(rng: Any, s: Any) -> Any:
    return IdentityOperator(s)


def scalar_value(rng: Any, s: Any, nonzero: bool = True) -> Any:
    dt = data_dtype(s)
    k = int(rng.integers(-8, 9))
    if nonzero and k == 0:
        k = 2
    v = k / 4
    form = int(rng.integers(5))
    if form == 0:
        return float(v)
    if form == 1:
        return int(k) if k != 0 else 1
    if form == 2:
        return np.float32(v)
    if form == 3:
        return jnp.asarray(v, dtype=dt)
    return np.asarray(v, dtype=np.float32)


def a_homothety(rng: Any, s: Any) -> Any:
    if rng.integers(6) == 0:
        # a NumPy 0-d array is an accepted scalar value too
        return HomothetyOperator(np.asarray(float(scalar_value(rng, s)), dtype=data_dtype(s)), s)
    return HomothetyOperator(jnp.asarray(scalar_value(rng, s), dtype=data_dtype(s)), s)


def a_diagonal(rng: Any, s: Any) -> Any:
    ls = leaves(s)
    dt = data_dtype(s)
    shapes = [l.shape for l in ls]
    if any(len(sh) == 0 for sh in shapes):
        return None
    forms = []
    if len({sh[-1] for sh in shapes}) == 1:
        forms.append('last')
    if len({sh[0] for sh in shapes}) == 1:
        forms.append('first')
    if len(set(shapes)) == 1 and len(shapes[0]) >= 2:
        forms += ['full', 'tuple_rev', 'last2']
    if not forms:
        return None
    form = pick(rng, forms)
    sh = shapes[0]
    if form == 'last':
        return DiagonalOperator(dy(rng, (sh[-1],), dt, nonzero=True), axis_destination=-1, in_structure=s)
    if form == 'first':
        return DiagonalOperator(dy(rng, (sh[0],), dt, nonzero=True), axis_destination=0, in_structure=s)
    if form == 'full':
        return DiagonalOperator(dy(rng, sh, dt, nonzero=True), axis_destination=0, in_structure=s)
    if form == 'last2':
        return DiagonalOperator(dy(rng, sh[-2:], dt, nonzero=True), axis_destination=-1, in_structure=s)
    # values laid along (last, first) axes, explicit tuple in non-sorted order
    vals = dy(rng, (sh[-1], sh[0]), dt, nonzero=True)
    if len(sh) == 2:
        return DiagonalOperator(vals, axis_destination=(-1, 0), in_structure=s)
    return DiagonalOperator(vals, axis_destination=(len(sh) - 1, -len(sh)), in_structure=s)


def a_broadcast_diagonal(rng: Any, s: Any) -> Any:
    ls = leaves(s)
    dt = data_dtype(s)
    shapes = [l.shape for l in ls]
    if any(len(sh) == 0 for sh in shapes) or size_of(s) * 2 > MAX_SIZE:
        return None
    if len({len(sh) for sh in shapes}) == 1:
        # a length-1 axis of every leaf facing a longer axis of the values: the product STRETCHES that axis (NumPy broadcasting),
        # so the transpose has to sum over it
        ones = [a for a in range(len(shapes[0])) if all(sh[a] == 1 for sh in shapes)]
        if ones and rng.integers(2):
            a = int(pick(rng, ones))
            k = int(rng.integers(2, 4))
            if rng.integers(2) and a + 1 < len(shapes[0]) and len({sh[a + 1] for sh in shapes}) == 1:
                return BroadcastDiagonalOperator(dy(rng, (k, shapes[0][a + 1]), dt), axis_destination=(a, a + 1), in_structure=s)
            return BroadcastDiagonalOperator(dy(rng, (k,), dt), axis_destination=a if rng.integers(2) else a - len(shapes[0]), in_structure=s)
    if len({sh[-1] for sh in shapes}) == 1 and rng.integers(2):
        # extends the input on the left: values (2, n_last) on axes (-r-1, -1) is not expressible
        # for different ranks, use the scalar negative form on equal ranks only
        if len({len(sh) for sh in shapes}) == 1:
            r = len(shapes[0])
            vals = dy(rng, (2, shapes[0][-1]), dt)
            return BroadcastDiagonalOperator(vals, axis_destination=(-r - 1, -1), in_structure=s)
    if len({sh[0] for sh in shapes}) == 1 and len({len(sh) for sh in shapes}) == 1:
        r = len(shapes[0])
        vals = dy(rng, (shapes[0][0], 2), dt)
        return BroadcastDiagonalOperator(vals, axis_destination=(0, r), in_structure=s)
    return None


def a_dense(rng: Any, s: Any) -> Any:
    ls = leaves(s)
    dt = data_dtype(s)
    shapes = [l.shape for l in ls]
    if any(len(sh) == 0 for sh in shapes):
        return None
    forms = []
    if len({sh[0] for sh in shapes}) == 1:
        forms.append('first')
    if len({sh[-1] for sh in shapes}) == 1:
        forms.append('last')
    if len(set(shapes)) == 1 and len(shapes[0]) == 2:
        forms += ['batch', 'batch_mid']
    forms.append('perleaf')
    if len(set(shapes)) == 1 and len(shapes[0]) == 3:
        forms += ['batch2', 'batch2']
    form = pick(rng, forms)
    m = int(rng.integers(1, 4))
    if form == 'batch2':
        # two batch letters a, b: the block term is any permutation of a, b, i (free) and j (contracted)
        a, b, j = shapes[0]
        size = {'a': a, 'b': b, 'j': j, 'i': m}
        left = ''.join(rng.permutation(list('abij')))
        return DenseBlockDiagonalOperator(dy(rng, tuple(size[c] for c in left), dt), s, f'{left},abj->abi')
    if form == 'first':
        return DenseBlockDiagonalOperator(dy(rng, (m, shapes[0][0]), dt), s, 'ij...,j...->i...')
    if form == 'last':
        return DenseBlockDiagonalOperator(dy(rng, (m, shapes[0][-1]), dt), s, 'ij,...j->...i')
    if form == 'batch':
        h, j = shapes[0]
        return DenseBlockDiagonalOperator(dy(rng, (h, m, j), dt), s, 'hij,hj->hi')
    if form == 'batch_mid':
        k, j = shapes[0]
        return DenseBlockDiagonalOperator(dy(rng, (m, k, j), dt), s, 'ikj,kj->ki')
    blocks = jax.tree.map(lambda l: dy(rng, (m, l.shape[0]), dt), s)
    if is_sds(s):
        return DenseBlockDiagonalOperator(blocks, s, 'ij...,j...->i...')
    return DenseBlockDiagonalOperator(blocks, s, 'ij...,j...->i...')


def index_expr(rng: Any, shape: tuple[int, ...], *, arrays: bool = True) -> tuple[Any, ...] | None:
    """Random in-bounds index expression for a leaf of the given shape (applies to its leading or
    trailing axes so that it can be shared by leaves of larger rank)."""
    r = len(shape)
    if r == 0:
        return None
    form = int(rng.integers(8 if arrays else 4))
    ax0, axl = shape[0], shape[-1]

    def arr(n: int, k: int | None = None, rank2: bool = False) -> jax.Array:
        k = int(rng.integers(1, n + 2)) if k is None else k
        vals = rng.integers(-n, n, size=(2, k) if rank2 else (k,))
        if not rank2 and rng.integers(6) == 0:
            # sorted non-negative arrays: contiguous ranges and look-alikes with a repeated entry and a gap ([0, 0, 2])
            vals = np.sort(np.abs(vals) % n)
            if n >= 3:
                kk = int(rng.integers(3, n + 1))
                vals = np.arange(kk) + int(rng.integers(0, n - kk + 1))
                if rng.integers(3):
                    vals[1] = vals[0]
        return jnp.asarray(vals, dtype=jnp.int32)

    if form == 0:
        return (int(rng.integers(-ax0, ax0)),)
    if form == 1:
        a = int(rng.integers(0, ax0))
        b = int(rng.integers(a, ax0 + 1))
        if b == a:
            b = a + 1
        return (slice(a, b, None),)
    if form == 2:
        return (Ellipsis, int(rng.integers(-axl, axl)))
    if form == 3:
        step = int(pick(rng, [1, 2, -1]))
        return (Ellipsis, slice(None, None, step))
    if form == 4:
        return (arr(ax0),)
    if form == 5:
        return (Ellipsis, arr(axl))
    if form == 6:
        return (arr(ax0, rank2=bool(rng.integers(2))),)
    if r >= 2:
        return (slice(None), arr(shape[1]))
    return (arr(ax0),)


def index_out_structure(s: Any, idx: tuple[Any, ...]) -> Any:
    def f(l: SDS) -> SDS:
        y = np.zeros(l.shape, np.float32)[tuple(np.asarray(i) if hasattr(i, 'shape') else i for i in idx)]
        return S(np.shape(y), l.dtype)

    return jax.tree.map(f, s)


def a_index(rng: Any, s: Any) -> Any:
    ls = leaves(s)
    if not ls:
        return None
    r = common_rank(s)
    if r == 0:
        return None
    # the expression must be in bounds for every leaf: use the elementwise minimum of the leading
    # and trailing dimensions over the leaves
    lead = min(l.shape[0] for l in ls)
    trail = min(l.shape[-1] for l in ls)
    shape = (lead,) + (2,) * (r - 2) + ((trail,) if r >= 2 else ())
    if r >= 2:
        shape = (lead,) + tuple(min(l.shape[i] for l in ls if len(l.shape) == r) for i in range(1, r - 1)) + (trail,)
        if any(len(l.shape) != r for l in ls):
            # different ranks: only first-axis or last-axis forms
            shape = (lead,) if rng.integers(2) else (trail,)
            idx = index_expr(rng, shape)
            if idx is None:
                return None
            if shape == (trail,) and idx[0] is not Ellipsis:
                idx = (Ellipsis,) + idx
            if len(idx) >= 2 and idx[0] == slice(None):
                return None
            return _mk_index(rng, idx, s)
    idx = index_expr(rng, shape)
    if idx is None:
        return None
    return _mk_index(rng, idx, s)


INDEX_WITHOUT_OUT_STRUCTURE = [True]  # construction without out_structure works since the fix of D1


def _mk_index(rng: Any, idx: tuple[Any, ...], s: Any) -> Any:
    try:
        out = index_out_structure(s, idx)
    except IndexError:
        return None
    if INDEX_WITHOUT_OUT_STRUCTURE[0] and rng.integers(2):
        return IndexOperator(idx if len(idx) > 1 or rng.integers(2) else idx[0], in_structure=s)
    return IndexOperator(idx if len(idx) > 1 or rng.integers(2) else idx[0], in_structure=s, out_structure=out)


def a_pack(rng: Any, s: Any) -> Any:
    if not (is_sds(s) or is_stokes(s)):
        return None
    shape = leaves(s)[0].shape
    if len(shape) == 0:
        return None
    k = int(rng.integers(1, len(shape) + 1))
    mask = rng.integers(0, 2, size=shape[:k]).astype(bool)
    if not mask.any():
        mask.flat[0] = True
    return PackOperator(jnp.asarray(mask), s)


def a_moveaxis(rng: Any, s: Any) -> Any:
    r = common_rank(s)
    if r < 2:
        return None
    ranks = {len(l.shape) for l in leaves(s)}
    k = int(rng.integers(1, r + 1))
    if len(ranks) > 1:
        # negative axes address trailing dims of every leaf, non-negative the leading ones; any mix
        # of signs is legal as long as numpy.moveaxis accepts it for every leaf
        pool = list(range(-r, 0)) + list(range(r))
        for _ in range(20):
            src = [int(v) for v in rng.permutation(pool)[:k]]
            dst = [int(v) for v in rng.permutation(pool)[:k]]
            try:
                for l in leaves(s):
                    np.moveaxis(np.zeros(l.shape), src, dst)
                break
            except Exception:  # noqa: BLE001
                continue
        else:
            src, dst = [0], [0]
    else:
        perm_s = [int(v) for v in rng.permutation(r)[:k]]
        perm_d = [int(v) for v in rng.permutation(r)[:k]]
        src = [v - r if rng.integers(2) else v for v in perm_s]
        dst = [v - r if rng.integers(2) else v for v in perm_d]
    if k == 1 and rng.integers(2):
        return MoveAxisOperator(src[0], dst[0], in_structure=s)
    if rng.integers(2):
        return MoveAxisOperator(src, dst, in_structure=s)
    return MoveAxisOperator(tuple(src), tuple(dst), in_structure=s)


def a_ravel(rng: Any, s: Any) -> Any:
    r = common_rank(s)
    if r < 1:
        return None
    ranks = {len(l.shape) for l in leaves(s)}
    form = int(rng.integers(4))
    if form == 0:
        return RavelOperator(in_structure=s)
    if form == 1:
        a = int(rng.integers(0, r))
        b = int(rng.integers(a, r))
        return RavelOperator(a, b, in_structure=s)
    if form == 2:
        a = int(rng.integers(-r, 0))
        b = int(rng.integers(a, 0))
        return RavelOperator(a, b, in_structure=s)
    if len(ranks) == 1:
        a = int(rng.integers(0, r))
        b = int(rng.integers(a, r))
        return RavelOperator(a, b - r, in_structure=s)
    return RavelOperator(0, -1, in_structure=s)


def a_reshape(rng: Any, s: Any) -> Any:
    sizes = {int(math.prod(l.shape)) for l in leaves(s)}
    if len(sizes) != 1:
        # a -1 form that fits all leaves: (-1,) or (k, -1) with k dividing all sizes
        ks = [k for k in (1, 2, 3) if all(sz % k == 0 for sz in sizes)]
        k = pick(rng, ks)
        shape = pick(rng, [(-1,), (k, -1), (-1, k)])
        return ReshapeOperator(shape, in_structure=s)
    n = sizes.pop()
    divs = [d for d in range(1, n + 1) if n % d == 0]
    d = pick(rng, divs)
    shape = pick(rng, [(n,), (d, n // d), (d, -1), (-1, d), (1, n), (n // d, 1, d)])
    return ReshapeOperator(shape, in_structure=s)


def a_toeplitz(rng: Any, s: Any) -> Any:
    if not is_sds(s) or len(s.shape) == 0:
        return None
    n = s.shape[-1]
    k = int(rng.integers(1, min(n, 3) + 1))
    dt = s.dtype
    batch = ()
    if len(s.shape) > 1 and rng.integers(2):
        batch = pick(rng, [s.shape[:-1], (1,) * (len(s.shape) - 1), s.shape[-2:-1]])
    band = dy(rng, tuple(batch) + (k,), dt if not (X64 and rng.integers(3) == 0) else np.float32)   # never wider than the data
    method = pick(rng, ['dense', 'direct', 'fft', 'overlap_save'])
    if method == 'overlap_save' and rng.integers(2):
        # a user-chosen FFT size: any size >= 2K-1 is admissible (odd sizes, the minimum, sizes below twice the overlap)
        return SymmetricBandToeplitzOperator(band, s, method=method, fft_size=2 * k - 1 + int(rng.integers(0, 7)))
    return SymmetricBandToeplitzOperator(band, s, method=method)


def a_qurot(rng: Any, s: Any) -> Any:
    if not is_stokes(s):
        return None
    return QURotationOperator(angles_for(rng, s), s)


def angles_for(rng: Any, s: Any) -> jax.Array:
    shape = leaves(s)[0].shape
    dt = data_dtype(s)
    forms = [(), shape, shape[-1:], (1,) * len(shape)]
    if len(shape) == 2:
        forms += [(shape[0], 1), (1, shape[1])]
    ash = pick(rng, forms)
    if rng.integers(4) == 0:
        special = np.array([0, np.pi / 4, -np.pi / 4, np.pi / 2, -np.pi / 2, np.pi])
        vals = special[rng.integers(0, len(special), size=ash)]
    else:
        vals = rng.uniform(-np.pi, np.pi, size=ash)
    return jnp.asarray(vals, dtype=dt)


def a_hwp(rng: Any, s: Any) -> Any:
    if not is_stokes(s):
        return None
    return HWPOperator(s)


def a_polarizer(rng: Any, s: Any) -> Any:
    if not is_stokes(s):
        return None
    return LinearPolarizerOperator(s)


_toast_dir: list[str] = []


def toast_path(rng: Any, n: int, dt: Any, ncol: int | None = None) -> str:
    """Writes a random non-symmetric square (n x ncol if given) CSR observation matrix into the scratch directory."""
    import scipy.sparse as sp
    if ncol is not None:
        if not _toast_dir:
            _toast_dir.append(tempfile.mkdtemp(prefix='fvm-toast-', dir=os.environ.get('FVM_SCRATCH')))
        dense = np.where(rng.random((n, ncol)) < 0.6, rng.integers(1, 9, size=(n, ncol)) / 4, 0.0)
        m = sp.csr_matrix(dense.astype(dt))
        path = os.path.join(_toast_dir[0], f'obs_rect_{rng.integers(1 << 30)}.npz')
        np.savez(path, format='csr', data=m.data, indices=m.indices, indptr=m.indptr, shape=np.array(m.shape))
        return path

    if not _toast_dir:
        _toast_dir.append(tempfile.mkdtemp(prefix='fvm-toast-', dir=os.environ.get('FVM_SCRATCH')))
    dense = np.where(rng.random((n, n)) < 0.5, rng.integers(-8, 9, size=(n, n)) / 4, 0.0)
    m = sp.csr_matrix(dense.astype(dt))
    path = os.path.join(_toast_dir[0], f'obs_{rng.integers(1 << 30)}.npz')
    np.savez(path, format='csr', data=m.data, indices=m.indices, indptr=m.indptr, shape=np.array(m.shape))
    return path


def a_toast(rng: Any, s: Any) -> Any:
    from furax.toast.obs_matrix import ToastObservationMatrixOperator

    if not is_sds(s) or len(s.shape) != 1:
        return None
    op = ToastObservationMatrixOperator(toast_path(rng, s.shape[0], s.dtype))
    if not struct_eq(op.in_structure(), s):
        return None
    return op


ATOMS: dict[str, Callable[[Any, Any], Any]] = {
    'identity': a_identity,
    'homothety': a_homothety,
    'diagonal': a_diagonal,
    'broadcast_diagonal': a_broadcast_diagonal,
    'dense': a_dense,
    'index': a_index,
    'pack': a_pack,
    'moveaxis': a_moveaxis,
    'ravel': a_ravel,
    'reshape': a_reshape,
    'toeplitz': a_toeplitz,
    'qurot': a_qurot,
    'hwp': a_hwp,
    'polarizer': a_polarizer,
    'toast': a_toast,
}
ATOM_WEIGHTS = {
    'identity': 1, 'homothety': 2, 'diagonal': 3, 'broadcast_diagonal': 1, 'dense': 3, 'index': 3,
    'pack': 1, 'moveaxis': 2, 'ravel': 2, 'reshape': 2, 'toeplitz': 1.5, 'qurot': 4, 'hwp': 3,
    'polarizer': 2, 'toast': 0.5,
}


def atom(rng: Any, s: Any, exclude: tuple[str, ...] = (), only: tuple[str, ...] | None = None) -> Any:
    names = [n for n in ATOMS if n not in exclude and (only is None or n in only)]
    w = np.array([ATOM_WEIGHTS[n] for n in names], dtype=float)
    for _ in range(12):
        name = names[int(rng.choice(len(names), p=w / w.sum()))]
        op = ATOMS[name](rng, s)
        if op is None:
            continue
        try:
            if size_of(op.out_structure()) > MAX_SIZE or size_of(op.out_structure()) == 0:
                continue
        except Exception:  # noqa: BLE001
            raise
        return op
    return IdentityOperator(s)


# ---- connectors ----------------------------------------------------------------------------------


def leaf_connector(rng: Any, a: SDS, b: SDS) -> Any:
    """Dense operator from one array leaf to another (ravel, dense matrix, reshape)."""
    n, m = int(math.prod(a.shape)), int(math.prod(b.shape))
    dt = min(np.dtype(a.dtype), np.dtype(b.dtype), key=lambda d: d.itemsize)
    ops: list[Any] = []
    cur = a
    if len(a.shape) != 1:
        rv = RavelOperator(in_structure=a) if len(a.shape) > 0 else ReshapeOperator((1,), in_structure=a)
        ops.append(rv)
        cur = rv.out_structure()
    dense = DenseBlockDiagonalOperator(dy(rng, (m, n), dt), cur, 'ij,j->i')
    ops.append(dense)
    cur = dense.out_structure()
    if np.dtype(cur.dtype) != np.dtype(b.dtype):
        return None
    if tuple(b.shape) != (m,):
        ops.append(ReshapeOperator(tuple(b.shape), in_structure=cur))
    out = ops[0]
    for o in ops[1:]:
        out = o @ out
    return out


def children(s: Any) -> tuple[Callable[[list[Any]], Any], list[Any]] | None:
    """One level of container: (rebuild, children) or None for an array leaf."""
    if is_sds(s):
        return None
    if isinstance(s, (list, tuple)) and not hasattr(s, '_fields'):
        t = type(s)
        return (lambda cs: t(cs)), list(s)
    if isinstance(s, dict):
        keys = list(s.keys())
        return (lambda cs: dict(zip(keys, cs))), [s[k] for k in keys]
    if isinstance(s, StokesPyTree):
        t = type(s)
        return (lambda cs: t(*cs)), [getattr(s, c.lower()) for c in t.stokes]
    return None


def connector(rng: Any, s: Any, t: Any) -> Any:
    """Dense operator between arbitrary structures, built from block rows/columns of leaf
    connectors.  Returns None when the dtypes cannot be produced without widening."""
    if is_sds(s) and is_sds(t):
        return leaf_connector(rng, s, t)
    ct = children(t)
    if ct is not None:
        rebuild, cs = ct
        blocks = [connector(rng, s, c) for c in cs]
        if any(b is None for b in blocks):
            return None
        return BlockColumnOperator(rebuild(blocks))
    cs_ = children(s)
    assert cs_ is not None
    rebuild, cs = cs_
    blocks = [connector(rng, c, t) for c in cs]
    if any(b is None for b in blocks):
        return None
    return BlockRowOperator(rebuild(blocks))


# ---- expressions ---------------------------------------------------------------------------------


class Budget:
    def __init__(self, depth: int, chain: int, lazy_inverse: bool = True) -> None:
        self.depth = depth
        self.chain = chain
        self.lazy_inverse = lazy_inverse
        self.n_lazy = 0


def combine(rng: Any, ops: list[Any]) -> Any:
    """Builds ops[0] @ ops[1] @ ... with a random association order (or the constructor)."""
    if len(ops) == 1:
        return ops[0]
    if len(ops) > 2 and rng.integers(6) == 0:
        return CompositionOperator(list(ops))
    i = int(rng.integers(1, len(ops)))
    return combine(rng, ops[:i]) @ combine(rng, ops[i:])


def chain(rng: Any, s: Any, n: int, b: Budget, depth: int) -> Any:
    ops = []
    cur = s
    for _ in range(n):
        op = expr(rng, cur, b, depth + 1) if rng.integers(3) == 0 else atom(rng, cur)
        ops.append(op)
        cur = op.out_structure()
    return combine(rng, list(reversed(ops)))


def spd(rng: Any, s: Any) -> Any:
    """Well-conditioned symmetric positive definite operator on s (kappa <= ~30)."""
    ls = leaves(s)
    dt = data_dtype(s)
    if len(ls) == 1 and len(ls[0].shape) >= 1 and is_sds(s):
        n = ls[0].shape[-1]
        d = DiagonalOperator(dy(rng, (n,), dt, positive=True, hi=8) + 1, axis_destination=-1, in_structure=s)
        form = int(rng.integers(3))
        if form == 0:
            return d
        if form == 1 and n >= 2:
            band = jnp.asarray([2.0, 0.5], dtype=dt)
            return d + SymmetricBandToeplitzOperator(band, s, method='dense')
        cn = leaf_connector(rng, s, S((2,), dt))
        if cn is not None:
            return cn.T @ cn + d
        return d
    h = HomothetyOperator(jnp.asarray(2.0, dtype=dt), s)
    return h


def expr(rng: Any, s: Any, b: Budget, depth: int = 0) -> Any:
    """Random well-typed operator expression with input structure ``s``."""
    if depth >= b.depth:
        return atom(rng, s)
    kinds = ['atom', 'chain', 'chain', 'sum', 'scaled', 'sandwich', 'square_T', 'blockcol',
             'blockdiag', 'blockrow', 'inverse', 'direct_ctor']
    for _ in range(6):
        kind = pick(rng, kinds)
        out = _expr_kind(rng, kind, s, b, depth)
        if out is not None:
            try:
                if size_of(out.out_structure()) <= MAX_SIZE:
                    return out
            except Exception:  # noqa: BLE001
                raise
    return atom(rng, s)


def _expr_kind(rng: Any, kind: str, s: Any, b: Budget, depth: int) -> Any:
    if kind == 'atom':
        return atom(rng, s)
    if kind == 'chain':
        return chain(rng, s, int(rng.integers(2, b.chain + 1)), b, depth)
    if kind == 'sum':
        a = expr(rng, s, b, depth + 1)
        t = a.out_structure()
        others = []
        for _ in range(int(rng.integers(1, 3))):
            if rng.integers(2) and struct_eq(s, t):
                o = expr(rng, s, b, depth + 1)
                if not struct_eq(o.out_structure(), t):
                    o = connector(rng, s, t)
            else:
                o = connector(rng, s, t)
            if o is None or not struct_eq(o.out_structure(), t) or not struct_eq(o.in_structure(), s):
                continue
            others.append(o)
        if not others:
            return a
        if rng.integers(5) == 0:
            others.append(pick(rng, [a] + others))   # the same operator instance twice in one sum
        form = int(rng.integers(4))
        if form == 0:
            out = a
            for o in others:
                out = out + o if rng.integers(2) else out - o
            return out
        if form == 1:
            out = others[0]
            for o in others[1:]:
                out = out + o
            return a + out if rng.integers(2) else a - out
        if form == 2:
            return AdditionOperator([a] + others)
        keys = ['z', 'a', 'm'][: len(others) + 1]
        return AdditionOperator(dict(zip(keys, [a] + others)))
    if kind == 'scaled':
        a = expr(rng, s, b, depth + 1)
        k = scalar_value(rng, s)
        form = int(rng.integers(5))
        if isinstance(k, (np.ndarray, np.floating)) and X64:
            # NumPy float64 scalars would widen float32 data; parameters stay no wider than data
            k = float(k)
        if form == 0:
            return k * a
        if form == 1:
            return a * k
        if form == 2:
            return a / k
        if form == 3:
            return -a
        return +a
    if kind == 'sandwich':
        e = expr(rng, s, b, depth + 1)
        if 'InverseOperator' in _names(e):
            return e  # transposes of the solver-based inverse are not supported by the library
        t = e.out_structure()
        form = int(rng.integers(3))
        if form == 0:
            return e.T @ e
        mids = []
        for _ in range(int(rng.integers(1, 4))):
            mid = atom(rng, t, only=('homothety', 'diagonal', 'identity', 'hwp', 'qurot', 'toeplitz'))
            if struct_eq(mid.out_structure(), t):
                mids.append(mid)
        if not mids:
            return e.T @ e
        if rng.integers(2):
            return combine(rng, [e.T] + mids + [e])
        return CompositionOperator([e.T] + mids + [e])
    if kind == 'square_T':
        e = expr(rng, s, b, depth + 1)
        if 'InverseOperator' in _names(e):
            return e
        if not struct_eq(e.out_structure(), s):
            e = e.T @ e
        return e.T
    if kind == 'blockcol':
        n = int(rng.integers(1, 4))
        if size_of(s) * n > MAX_SIZE:
            return None
        blocks = [expr(rng, s, b, depth + 1) for _ in range(n)]
        if sum(size_of(x.out_structure()) for x in blocks) > MAX_SIZE:
            return None
        cont = int(rng.integers(4))
        if cont == 0:
            return BlockColumnOperator(blocks)
        if cont == 1:
            return BlockColumnOperator(tuple(blocks))
        if cont == 2:
            keys = ['q', 'b', 'k'][:n]
            return BlockColumnOperator(dict(zip(keys, blocks)))
        if n >= 2:
            return BlockColumnOperator({'y': blocks[:1], 'x': tuple(blocks[1:])})
        return BlockColumnOperator([blocks])
    if kind in ('blockdiag', 'blockrow'):
        c = children(s)
        if c is None:
            return None
        rebuild, cs = c
        if kind == 'blockdiag':
            return BlockDiagonalOperator(rebuild([_block_for(rng, x, b, depth) for x in cs]))
        if len(cs) < 2:
            return None
        first = expr(rng, cs[0], b, depth + 1)
        t = first.out_structure()
        blocks = [first]
        for x in cs[1:]:
            o = connector(rng, x, t)
            if o is None:
                return None
            if rng.integers(2):
                pre = atom(rng, x)
                if struct_eq(pre.out_structure(), x):
                    o = o @ pre
            blocks.append(o)
        return BlockRowOperator(rebuild(blocks))
    if kind == 'inverse':
        form = int(rng.integers(5))
        if form == 0:
            return a_homothety(rng, s).I
        if form == 1:
            d = a_diagonal(rng, s)
            return d.I if d is not None else None
        if form == 2:
            c = children(s)
            if c is None:
                return None
            rebuild, cs = c
            bl = []
            for x in cs:
                d = a_diagonal(rng, x) if rng.integers(2) else a_homothety(rng, x)
                if d is None:
                    d = a_homothety(rng, x)
                bl.append(d)
            return BlockDiagonalOperator(rebuild(bl)).I
        if form == 3:
            q = a_qurot(rng, s)
            if q is not None:
                return q.I
            m = a_moveaxis(rng, s)
            return m.T.I if m is not None else None  # (s -> t).T.I : s -> t
        if b.lazy_inverse and b.n_lazy < 1 and size_of(s) <= 8 and rng.integers(3) == 0:
            b.n_lazy += 1
            a = spd(rng, s)
            if is_sds(s) and len(s.shape) >= 1 and rng.integers(3) == 0:
                # a bare symmetric-TAGGED operand, positive or negative definite (diagonally dominant bands): CG handles both
                n = s.shape[-1]
                sign = 1.0 if rng.integers(2) else -1.0
                band = np.array([sign * float(rng.integers(4, 7)), 1.0, 0.5][: max(1, min(n, 3))])
                a = SymmetricBandToeplitzOperator(jnp.asarray(band, dtype=s.dtype), s, method=pick(rng, ['dense', 'direct']))
            inv = a.I
            form2 = int(rng.integers(3))
            if form2 == 0:
                return inv
            if form2 == 1:
                return inv @ a  # identity shortcut at construction
            return a @ inv
        return None
    if kind == 'direct_ctor':
        # nested compositions built through the constructor are not flattened
        inner = chain(rng, s, 2, b, depth + 1)
        outer = atom(rng, inner.out_structure())
        return CompositionOperator([outer, inner])
    return None


def _block_for(rng: Any, x: Any, b: Budget, depth: int) -> Any:
    if not is_sds(x) and rng.integers(2):
        c = children(x)
        if c is not None:
            rebuild, cs = c
            # nested container of blocks
            return rebuild([_block_for(rng, y, b, depth + 1) for y in cs])
    return expr(rng, x, b, depth + 1)


def _names(op: Any) -> set[str]:
    from .dense import class_names

    return class_names(op)


# ---- well-typedness validator (guards against generator bugs) ---------------------------------------


def well_typed(op: Any) -> str | None:
    """Returns None when every composite in ``op`` is consistent by the declared structures,
    else a short description of the first inconsistency."""
    import lineax as lx

    isop = lambda z: isinstance(z, lx.AbstractLinearOperator)  # noqa: E731
    name = type(op).__name__
    d = getattr(op, '__dict__', {})
    if name == 'CompositionOperator':
        ops = list(op.operands)
        for o in ops:
            r = well_typed(o)
            if r:
                return r
        for a, b in zip(ops[:-1], ops[1:]):
            if not struct_eq(a.in_structure(), b.out_structure()):
                return f'composition {type(a).__name__} after {type(b).__name__}'
        return None
    if name == 'AdditionOperator':
        ops = jax.tree.leaves(op.operands, is_leaf=isop)
        for o in ops:
            r = well_typed(o)
            if r:
                return r
            if not struct_eq(o.in_structure(), ops[0].in_structure()) or not struct_eq(
                o.out_structure(), ops[0].out_structure()
            ):
                return 'sum of operators with different structures'
        return None
    if 'blocks' in d and name != 'DenseBlockDiagonalOperator':
        for o in jax.tree.leaves(op.blocks, is_leaf=isop):
            r = well_typed(o)
            if r:
                return r
        return None
    if 'operator' in d and isop(op.operator):
        return well_typed(op.operator)
    return None


# ---- one operator of a requested class (so that every class is reached early in every shard) -----------

CLASS_RECIPES = [
    'AdditionOperator', 'CompositionOperator', 'TransposeOperator', 'IdentityOperator', 'HomothetyOperator',
    'BroadcastDiagonalOperator', 'DiagonalOperator', 'DiagonalInverseOperator', 'DenseBlockDiagonalOperator',
    'IndexOperator', 'PackOperator', 'MoveAxisOperator', 'RavelOperator', 'ReshapeOperator',
    'ReshapeTransposeOperator', 'BlockRowOperator', 'BlockDiagonalOperator', 'BlockColumnOperator',
    'SymmetricBandToeplitzOperator', 'QURotationOperator', 'QURotationTransposeOperator', 'HWPOperator',
    'LinearPolarizerOperator', 'ToastObservationMatrixOperator', 'ToastObservationMatrixTransposeOperator', 'InverseOperator',
]


def operator_of_class(rng: Any, name: str) -> Any:
    """A small operator whose top-level class is ``name`` (None if the recipe does not apply)."""
    begin_case(rng)
    if name == 'InverseOperator':
        # solver-based inverse of a bare symmetric-tagged operand, positive or negative definite (CG handles both)
        s = S((int(rng.integers(2, 6)),), case_dtype(rng))
        sign = 1.0 if rng.integers(2) else -1.0
        band = np.array([sign * float(rng.integers(4, 7)), 1.0, 0.5][: min(s.shape[0], 3)])
        a = SymmetricBandToeplitzOperator(jnp.asarray(band, dtype=s.dtype), s, method=pick(rng, ['dense', 'direct', 'fft']))
        return a.I
    u = universe(rng)
    leaf = u[pick(rng, ['v3', 'v4', 'm23', 'm22'])]
    stokes = u[pick(rng, [k for k in u if k.startswith('stokes')])]
    cont = u[pick(rng, ['list_eq', 'dict_unsorted', 'tuple_samefirst'])]
    if name == 'AdditionOperator':
        a = atom(rng, leaf, only=('diagonal', 'toeplitz', 'homothety'))
        return a + atom(rng, leaf, only=('diagonal', 'homothety'))
    if name == 'CompositionOperator':
        return chain(rng, leaf, 2, Budget(1, 2, False), 1)
    if name == 'TransposeOperator':
        return a_index(rng, leaf).T if rng.integers(2) else a_polarizer(rng, stokes).T
    if name == 'IdentityOperator':
        return a_identity(rng, pick(rng, [leaf, stokes, cont]))
    if name == 'HomothetyOperator':
        return a_homothety(rng, pick(rng, [leaf, stokes, cont]))
    if name == 'BroadcastDiagonalOperator':
        return a_broadcast_diagonal(rng, u[pick(rng, ['v3', 't213', 'm23'])]) or a_broadcast_diagonal(rng, u['m23'])
    if name == 'DiagonalOperator':
        return a_diagonal(rng, pick(rng, [leaf, u['list_eq']]))
    if name == 'DiagonalInverseOperator':
        return a_diagonal(rng, leaf).I
    if name == 'DenseBlockDiagonalOperator':
        return a_dense(rng, pick(rng, [leaf, u['list_eq']]))
    if name == 'IndexOperator':
        return a_index(rng, pick(rng, [leaf, u['list_eq']]))
    if name == 'PackOperator':
        return a_pack(rng, pick(rng, [leaf, stokes]))
    if name == 'MoveAxisOperator':
        return a_moveaxis(rng, u[pick(rng, ['m23', 't213', 't223'])])
    if name == 'RavelOperator':
        return a_ravel(rng, u[pick(rng, ['m23', 't213', 'tuple_mixrank'])])
    if name == 'ReshapeOperator':
        return a_reshape(rng, u[pick(rng, ['m23', 'v4', 'list_eq'])])
    if name == 'ReshapeTransposeOperator':
        return (a_reshape(rng, u['m23']) if rng.integers(2) else a_ravel(rng, u['m23'])).T
    if name in ('BlockRowOperator', 'BlockDiagonalOperator', 'BlockColumnOperator'):
        kind = {'BlockRowOperator': 'blockrow', 'BlockDiagonalOperator': 'blockdiag', 'BlockColumnOperator': 'blockcol'}[name]
        for _ in range(6):
            e = _expr_kind(rng, kind, cont if kind != 'blockcol' else leaf, Budget(1, 2, False), 0)
            if e is not None and size_of(e.out_structure()) <= MAX_SIZE:
                return e
        return None
    if name == 'SymmetricBandToeplitzOperator':
        return a_toeplitz(rng, u[pick(rng, ['v4', 'm23'])])
    if name == 'QURotationOperator':
        return a_qurot(rng, stokes)
    if name == 'QURotationTransposeOperator':
        return a_qurot(rng, stokes).T
    if name == 'HWPOperator':
        return a_hwp(rng, stokes)
    if name == 'LinearPolarizerOperator':
        return a_polarizer(rng, stokes)
    if name == 'ToastObservationMatrixOperator':
        return a_toast(rng, u[pick(rng, ['v3', 'v4'])])
    if name == 'ToastObservationMatrixTransposeOperator':
        t = a_toast(rng, u[pick(rng, ['v3', 'v4'])])
        return t.T if t is not None else None
    return None
