"""Monitor core: event log, three-valued counters, record-and-continue violations, suppression.

Everything here is per process.  Workers dump ``LOG.dump()`` as JSON; the runner merges.
"""

from __future__ import annotations

import contextlib
import functools
import threading
import traceback
from collections import Counter, defaultdict
from typing import Any, Callable

_tls = threading.local()
_lock = threading.RLock()


def _depth() -> int:
    return getattr(_tls, 'depth', 0)


@contextlib.contextmanager
def quiet():
    """Calls made by oracles back into the library are invisible to every monitor."""
    _tls.depth = _depth() + 1
    try:
        yield
    finally:
        _tls.depth -= 1


def suppressed() -> bool:
    return _depth() > 0


class Log:
    def __init__(self) -> None:
        self.reset()

    def reset(self) -> None:
        self.counters: dict[str, dict[str, Any]] = {}
        self.violations: list[dict[str, Any]] = []
        self.cases: dict[str, bool] = {}
        self.samples: list[Any] = []
        self.hist: dict[str, Counter] = defaultdict(Counter)
        self.case: dict[str, Any] | None = None
        self.max_violations = 200
        self.nviol = 0
        self.notes: list[str] = []

    # ---- counters -------------------------------------------------------------------------
    def _c(self, mon: str) -> dict[str, Any]:
        c = self.counters.get(mon)
        if c is None:
            c = self.counters[mon] = {'evaluated': 0, 'violated': 0, 'skipped': Counter()}
        return c

    def evaluated(self, mon: str, n: int = 1) -> None:
        with _lock:
            self._c(mon)['evaluated'] += n

    def skipped(self, mon: str, reason: str, note: str | None = None) -> None:
        with _lock:
            self._c(mon)['skipped'][reason] += 1
            if reason.startswith('oracle') and len(self.notes) < 12:
                self.notes.append(f'skip {mon} {reason} case={self.case} {note or ""}'[:1500])

    def count(self, hist: str, key: Any, n: int = 1) -> None:
        with _lock:
            self.hist[hist][str(key)] += n

    # ---- cases ----------------------------------------------------------------------------
    def case_key(self, key: str, nontrivial: bool) -> None:
        """Registers a distinct case key; non-triviality is sticky."""
        with _lock:
            self.cases[key] = self.cases.get(key, False) or bool(nontrivial)

    def sample(self, obj: Any, limit: int = 6) -> None:
        with _lock:
            if len(self.samples) < limit:
                self.samples.append(obj)

    # ---- violations -----------------------------------------------------------------------
    def violation(self, prop: str, mon: str, key: str, msg: str, **detail: Any) -> None:
        """Record-and-continue: never raises into the code under observation."""
        with _lock:
            self._c(mon)['violated'] += 1
            self.nviol += 1
            if len(self.violations) >= self.max_violations:
                return
            self.violations.append(
                {
                    'property': prop,
                    'monitor': mon,
                    'key': key,
                    'msg': msg,
                    'case': dict(self.case) if self.case else None,
                    'detail': {k: _short(v) for k, v in detail.items()},
                }
            )

    def dump(self) -> dict[str, Any]:
        return {
            'counters': {
                k: {
                    'evaluated': v['evaluated'],
                    'violated': v['violated'],
                    'skipped': dict(v['skipped']),
                }
                for k, v in self.counters.items()
            },
            'violations': self.violations,
            'cases': self.cases,
            'samples': self.samples,
            'hist': {k: dict(v) for k, v in self.hist.items()},
            'notes': self.notes,
        }


def _short(v: Any, n: int = 600) -> Any:
    if isinstance(v, (int, float, bool)) or v is None:
        return v
    s = v if isinstance(v, str) else repr(v)
    return s if len(s) <= n else s[:n] + '…'


LOG = Log()


class OracleError(Exception):
    """The oracle itself could not be evaluated (counted as a skip, never a verdict)."""


class NonTermination(BaseException):
    """Raised by the bounded-progress monitor to break a diverging reduction loop."""


# ---- method wrapping -------------------------------------------------------------------------

ENABLED: set[str] = set()  # names of monitor groups switched on in this process


def enable(*groups: str) -> None:
    ENABLED.update(groups)


def _active() -> list[tuple[int, str]]:
    a = getattr(_tls, 'active', None)
    if a is None:
        a = _tls.active = []
    return a


def wrap(cls: type, name: str, group: str, handler: Callable[..., Any]) -> bool:
    """Replaces ``cls.__dict__[name]`` by a monitored wrapper.

    ``handler(orig, self, *args, **kw)`` must call ``orig`` exactly once and return (or re-raise)
    what it returned (raised).  Re-entrant calls on the same ``(self, name)`` (``super()`` chains)
    and calls made under ``quiet()`` go straight to ``orig``.
    """
    orig = cls.__dict__.get(name)
    if orig is None or not callable(orig) or getattr(orig, '__isabstractmethod__', False):
        return False
    if isinstance(orig, (staticmethod, classmethod, property)):
        return False
    stack = getattr(orig, '_fvm_groups', None)
    if stack is not None and group in stack:
        return False

    @functools.wraps(orig)
    def wrapper(self, *args, **kw):  # type: ignore[no-untyped-def]
        if _depth() or group not in ENABLED:
            return orig(self, *args, **kw)
        key = (id(self), name, group)
        active = _active()
        if key in active:
            return orig(self, *args, **kw)
        active.append(key)
        try:
            return handler(orig, self, *args, **kw)
        finally:
            active.pop()

    wrapper._fvm_groups = (stack or ()) + (group,)  # type: ignore[attr-defined]
    wrapper._fvm_orig = orig  # type: ignore[attr-defined]
    setattr(cls, name, wrapper)
    return True


def guarded(mon: str, fn: Callable[[], None]) -> None:
    """Runs an oracle under ``quiet()``; an oracle that cannot be evaluated is a counted skip."""
    try:
        with quiet():
            fn()
    except OracleError as exc:
        if str(exc) in ('too-large', 'non-real-dtype', 'dtype-unavailable'):
            LOG.skipped(mon, 'out-of-domain:' + str(exc))
        else:
            LOG.skipped(mon, 'oracle-error:' + _short(str(exc), 120))
    except NonTermination:
        raise
    except Exception as exc:  # noqa: BLE001 - the oracle, not the code under test, failed
        LOG.skipped(mon, 'oracle-error:' + type(exc).__name__ + ':' + _short(str(exc), 120))
        LOG.notes.append(traceback.format_exc(limit=6)[-1500:]) if len(LOG.notes) < 20 else None


def unwrap(fn: Any) -> Any:
    """The function originally stored on the class, below any monitor wrappers."""
    while hasattr(fn, '_fvm_orig'):
        fn = fn._fvm_orig
    return fn


# ---- constructor arguments as passed by the client --------------------------------------------------
# Reference models must be fed with what the client asked for, not with what the library stored
# (a change that rewrites the parameters at construction would otherwise be invisible).

import collections
import inspect

_CLIENT_ARGS: 'collections.OrderedDict[int, tuple[Any, dict[str, Any]]]' = collections.OrderedDict()


def record_client_args(obj: Any, init: Any, args: tuple[Any, ...], kwargs: dict[str, Any]) -> None:
    try:
        bound = inspect.signature(init).bind(obj, *args, **kwargs)
        bound.apply_defaults()
        params = dict(list(bound.arguments.items())[1:])
    except Exception:  # noqa: BLE001
        return
    with _lock:
        _CLIENT_ARGS[id(obj)] = (obj, params)
        while len(_CLIENT_ARGS) > 20000:
            _CLIENT_ARGS.popitem(last=False)


def client_args(obj: Any) -> dict[str, Any] | None:
    rec = _CLIENT_ARGS.get(id(obj))
    if rec is None or rec[0] is not obj:
        return None
    return rec[1]
