"""Pattern injectors: the operand pairs each documented simplification pattern speaks about,
their near misses, and inert contexts to embed them in (DESIGN §2.4, used by C01 and C07)."""

from __future__ import annotations

from typing import Any

import jax
import jax.numpy as jnp
import numpy as np

from furax._base.axes import MoveAxisOperator, RavelOperator, ReshapeOperator
from furax._base.blocks import BlockColumnOperator, BlockDiagonalOperator, BlockRowOperator
from furax._base.core import CompositionOperator, HomothetyOperator, IdentityOperator
from furax._base.dense import DenseBlockDiagonalOperator
from furax._base.diagonal import DiagonalOperator
from furax._base.indices import IndexOperator
from furax._base.linear import PackOperator
from furax.operators.hwp import HWPOperator
from furax.operators.polarizers import LinearPolarizerOperator
from furax.operators.qu_rotations import QURotationOperator
from furax.operators.toeplitz import SymmetricBandToeplitzOperator

from . import gen
from .gen import S, dy, pick


def _dt(rng: Any) -> Any:
    return gen.case_dtype(rng)


def _stokes(rng: Any) -> Any:
    cls = pick(rng, gen.STOKES)
    return cls.structure_for(pick(rng, [(3,), (2, 3)]), _dt(rng))


def _leaf(rng: Any) -> Any:
    return S(pick(rng, [(3,), (4,), (2, 3), (3, 2), (2, 2, 3)]), _dt(rng))


# Each pattern returns (name, [ops left-to-right])  — ops[-1] is applied first.


def p_inverse(rng: Any) -> tuple[str, list[Any]]:
    s = _leaf(rng)
    form = int(rng.integers(4))
    if form == 0:
        x = gen.spd(rng, s)
        x = x.reduce() if type(x).__name__ != 'DiagonalOperator' else x
        xi = x.I
        name = 'inverse/lazy'
    elif form == 1:
        x = gen.a_diagonal(rng, s)
        xi = x.I
        name = 'inverse/diagonal'
    elif form == 2:
        st = _stokes(rng)
        x = QURotationOperator(gen.angles_for(rng, st), st)
        xi = x.I  # orthogonal: transpose object, a lazy inverse of x
        name = 'inverse/orthogonal'
    else:
        band = jnp.asarray([4.0, 1.0], dtype=s.dtype)
        s1 = S(s.shape, s.dtype)
        x = SymmetricBandToeplitzOperator(band, s1, method='dense')
        xi = x.I
        name = 'inverse/lazy-toeplitz'
    if rng.integers(2):
        return name + '/I@X', [xi, x]
    return name + '/X@I', [x, xi]


def p_qurot(rng: Any) -> tuple[str, list[Any]]:
    st = _stokes(rng)
    a = QURotationOperator(gen.angles_for(rng, st), st)
    b = QURotationOperator(gen.angles_for(rng, st), st)
    form = int(rng.integers(4))
    if form == 0:
        return 'qurot/R@R', [a, b]
    if form == 1:
        return 'qurot/R@RT', [a, b.T]
    if form == 2:
        return 'qurot/RT@R', [a.T, b]
    return 'qurot/RT@RT', [a.T, b.T]


def p_qurot_hwp(rng: Any) -> tuple[str, list[Any]]:
    st = _stokes(rng)
    r = QURotationOperator(gen.angles_for(rng, st), st)
    h = HWPOperator(st)
    if rng.integers(2):
        return 'qurot_hwp/R@HWP', [r, h]
    return 'qurot_hwp/RT@HWP', [r.T, h]


def p_pol_hwp(rng: Any) -> tuple[str, list[Any]]:
    st = _stokes(rng)
    return 'pol_hwp', [LinearPolarizerOperator(st), HWPOperator(st)]


def p_pol_rot_hwp(rng: Any) -> tuple[str, list[Any]]:
    """A rewrite that creates a new pattern on its left: pol, R, HWP -> pol, HWP, R' -> pol, R'."""
    st = _stokes(rng)
    r = QURotationOperator(gen.angles_for(rng, st), st)
    return 'pol_rot_hwp', [LinearPolarizerOperator(st), r if rng.integers(2) else r.T, HWPOperator(st)]


def _block_container(rng: Any, blocks: list[Any]) -> Any:
    form = int(rng.integers(4))
    n = len(blocks)
    if form == 0:
        return list(blocks)
    if form == 1:
        return tuple(blocks)
    if form == 2:
        return dict(zip(['q', 'b', 'k', 'a'][:n], blocks))
    if n >= 2:
        return {'y': [blocks[0]], 'x': tuple(blocks[1:])}
    return [blocks]


def _same_container(template: Any, template_blocks: list[Any], blocks: list[Any]) -> Any:
    """Container with the layout of ``template`` in which ``template_blocks[i]`` is replaced by
    ``blocks[i]`` (pairing by identity, not by flattening order: dict keys are sorted by JAX)."""
    import lineax as lx

    partner = {id(t): b for t, b in zip(template_blocks, blocks)}
    return jax.tree.map(lambda t: partner[id(t)], template,
                        is_leaf=lambda z: isinstance(z, lx.AbstractLinearOperator))


def p_blocks(rng: Any, form: int | None = None) -> tuple[str, list[Any]]:
    n = int(rng.integers(1, 4))
    form = int(rng.integers(4)) if form is None else form % 4
    leafs = [_leaf(rng) for _ in range(n)]
    if form == 0:  # Row @ Diag
        common = _leaf(rng)
        diag_blocks = [gen.atom(rng, l, exclude=('polarizer',)) for l in leafs]
        row_blocks = [gen.leaf_connector(rng, d.out_structure(), common)
                      if gen.is_sds(d.out_structure()) else None for d in diag_blocks]
        if any(b is None for b in row_blocks):
            return p_blocks(rng, form)
        c = _block_container(rng, row_blocks)
        return 'blocks/row@diag', [BlockRowOperator(c), BlockDiagonalOperator(_same_container(c, row_blocks, diag_blocks))]
    if form == 1:  # Diag @ Col
        common = _leaf(rng)
        col_blocks = [gen.leaf_connector(rng, common, l) for l in leafs]
        diag_blocks = [gen.atom(rng, l, exclude=('polarizer',)) for l in leafs]
        c = _block_container(rng, col_blocks)
        return 'blocks/diag@col', [BlockDiagonalOperator(_same_container(c, col_blocks, diag_blocks)), BlockColumnOperator(c)]
    if form == 2:  # Diag @ Diag
        b1 = [gen.atom(rng, l, exclude=('polarizer',)) for l in leafs]
        b2 = [gen.atom(rng, b.out_structure(), exclude=('polarizer',)) for b in b1]
        c = _block_container(rng, b1)
        return 'blocks/diag@diag', [BlockDiagonalOperator(_same_container(c, b1, b2)), BlockDiagonalOperator(c)]
    common_in, common_out = _leaf(rng), _leaf(rng)  # Row @ Col
    if n < 2:
        n = 2
        leafs = [_leaf(rng) for _ in range(n)]
    col = [gen.leaf_connector(rng, common_in, l) for l in leafs]
    row = [gen.leaf_connector(rng, l, common_out) for l in leafs]
    c = _block_container(rng, col)
    return 'blocks/row@col', [BlockRowOperator(_same_container(c, col, row)), BlockColumnOperator(c)]


def p_index_transpose(rng: Any) -> tuple[str, list[Any]]:
    """P @ P.T with P selecting no element twice."""
    s = _leaf(rng)
    n0 = s.shape[0]
    form = int(rng.integers(6))
    if form >= 4 and len(s.shape) >= 2:
        # the same selections written with an ellipsis
        nl_ = s.shape[-1]
        idx = (Ellipsis, slice(0, max(1, nl_ - 1))) if form == 4 else (Ellipsis, int(rng.integers(0, nl_)))
        kw = {}
    elif form >= 4:
        idx = (slice(0, max(1, n0 - 1)),)
        kw = {}
    elif form == 0:
        idx: Any = (int(rng.integers(-n0, n0)),)
        kw = {}
    elif form == 1:
        a = int(rng.integers(0, n0))
        idx = (slice(a, int(rng.integers(a + 1, n0 + 1))),)
        kw = {}
    elif form == 2:
        mask = rng.integers(0, 2, size=n0).astype(bool)
        mask[int(rng.integers(n0))] = True
        idx = (jnp.asarray(mask),)
        kw = {}
    else:
        k = int(rng.integers(1, n0 + 1))
        vals = rng.permutation(n0)[:k]
        idx = (jnp.asarray(vals, dtype=jnp.int32),)
        kw = {'unique_indices': True}
    out = gen.index_out_structure(s, idx)
    if gen.is_sds(out) and out.shape == ():
        return p_index_transpose(rng)
    p = IndexOperator(idx, in_structure=s, out_structure=out, **kw)
    return 'index/P@PT', [p, p.T]


def p_pack(rng: Any) -> tuple[str, list[Any]]:
    s = _leaf(rng) if rng.integers(2) else _stokes(rng)
    p = gen.a_pack(rng, s)
    return 'pack/P@PT', [p, p.T]


def p_transpose_index(rng: Any) -> tuple[str, list[Any]]:
    """P.T @ P with exactly one indexed axis carrying a non-unique integer array."""
    s = _leaf(rng)
    if rng.integers(3) == 0:
        s = [s, S(s.shape, s.dtype)]
    shape = gen.leaves(s)[0].shape
    r = len(shape)
    axis = int(rng.integers(r))
    n = shape[axis]
    k = int(rng.integers(1, n + 3))
    vals = rng.integers(-n, n, size=k)  # negative aliases of the same element included
    arr = jnp.asarray(vals, dtype=jnp.int32)
    if axis == 0:
        idx: Any = (arr,)
    elif axis == r - 1:
        idx = (Ellipsis, arr)
    else:
        idx = (slice(None),) * axis + (arr,)
    out = gen.index_out_structure(s, idx)
    p = IndexOperator(idx, in_structure=s, out_structure=out)
    return 'index/PT@P', [p.T, p]


def p_reshape(rng: Any) -> tuple[str, list[Any]]:
    s = _leaf(rng)
    for _ in range(20):
        r = gen.a_reshape(rng, s) if rng.integers(2) else gen.a_ravel(rng, s)
        if not gen.struct_eq(r.out_structure(), s):
            break
    else:
        r = ReshapeOperator((-1, 1), in_structure=s)
    rt = r.T
    if rng.integers(2):
        return 'reshape/R@RT', [r, rt]
    return 'reshape/RT@R', [rt, r]


def p_moveaxis(rng: Any) -> tuple[str, list[Any]]:
    s = S(pick(rng, [(2, 3), (3, 2), (2, 2, 3), (2, 1, 3)]), _dt(rng))
    m = gen.a_moveaxis(rng, s)
    mt = m.T
    if rng.integers(2):
        return 'moveaxis/MT@M', [mt, m]
    return 'moveaxis/M@MT', [m, mt]


N_NEARMISS = 11


def p_nearmiss(rng: Any, form: int | None = None) -> tuple[str, list[Any]]:
    """Operand pairs that look like a documented pattern (same classes) but are NOT one: the second
    operand belongs to a different object / different parameters.  Nothing has to be simplified here
    (C07 says nothing) but whatever reduce() does must preserve the map (C01)."""
    form = int(rng.integers(N_NEARMISS)) if form is None else form % N_NEARMISS
    s = _leaf(rng)
    if form == 0:      # pack_a @ pack_b.T with different masks
        a, b = gen.a_pack(rng, s), gen.a_pack(rng, s)
        return 'nearmiss/pack@otherpack.T', [a, b.T]
    if form == 1:      # pack @ index.T / index @ pack.T
        pk = gen.a_pack(rng, s)
        n0 = s.shape[0]
        idx = (jnp.asarray(rng.permutation(n0)[: int(rng.integers(1, n0 + 1))], dtype=jnp.int32),)
        ix = IndexOperator(idx, in_structure=s, out_structure=gen.index_out_structure(s, idx), unique_indices=True)
        return ('nearmiss/pack@index.T', [pk, ix.T]) if rng.integers(2) else ('nearmiss/index@pack.T', [ix, pk.T])
    if form == 2:      # two different duplicate-free index operators of the same length
        n0 = s.shape[0]
        k = int(rng.integers(1, n0 + 1))
        ops = []
        for _ in range(2):
            idx = (jnp.asarray(rng.permutation(n0)[:k], dtype=jnp.int32),)
            ops.append(IndexOperator(idx, in_structure=s, out_structure=gen.index_out_structure(s, idx), unique_indices=True))
        return ('nearmiss/index@otherindex.T', [ops[0], ops[1].T]) if rng.integers(2) else ('nearmiss/index.T@otherindex', [ops[0].T, ops[1]])
    if form == 3:      # diagonal next to the inverse of another diagonal
        d1, d2 = gen.a_diagonal(rng, s), gen.a_diagonal(rng, s)
        if d1.axis_destination != d2.axis_destination or d1._diagonal.shape != d2._diagonal.shape:
            d2 = DiagonalOperator(d1._diagonal + 1, axis_destination=d1.axis_destination, in_structure=s)
        return ('nearmiss/D.I@otherD', [d1.I, d2]) if rng.integers(2) else ('nearmiss/D@otherD.I', [d1, d2.I])
    if form == 4:      # move-axis pair that is inverse for the first leaf's rank only (axes written with other signs)
        dt = _dt(rng)
        # distinct dimensions: a wrong simplification also shows in the shapes, not only in the values
        st = [S(pick(rng, [(2, 3), (3, 2)]), dt), S((2, 3, 4), dt)] if rng.integers(2) else [S((2, 3, 4), dt), S((3, 2), dt)]
        r0 = len(st[0].shape)
        for _ in range(30):
            m = gen.a_moveaxis(rng, st)
            flip = lambda a: a - r0 if a >= 0 else a + r0  # noqa: E731
            src, dst = tuple(flip(a) for a in m.destination), tuple(flip(a) for a in m.source)
            try:
                for l in gen.leaves(m.out_structure()):
                    np.moveaxis(np.zeros(l.shape), src, dst)
            except Exception:  # noqa: BLE001
                continue
            left = MoveAxisOperator(src, dst, in_structure=m.out_structure())
            return 'nearmiss/moveaxis-other-signs', [left, m]
        m = gen.a_moveaxis(rng, st)
        return 'moveaxis/MT@M', [m.T, m]
    if form == 5 and rng.integers(2):
        # r1.T @ r2 where r1 and r2 have the same output structure but different input structures: not an identity
        dt = _dt(rng)
        a, b = pick(rng, [((3, 2), (2, 3)), ((2, 3), (6,)), ((2, 2, 3), (4, 3)), ((6,), (3, 2))])
        r1 = ReshapeOperator((-1,), in_structure=S(a, dt)) if rng.integers(2) else RavelOperator(in_structure=S(a, dt))
        r2 = ReshapeOperator((-1,), in_structure=S(b, dt))
        return 'nearmiss/reshape.T@reshape-other-input', [r1.T, r2]
    if form == 5:      # the transpose of one reshape next to another reshape object with the same shapes
        r1 = gen.a_reshape(rng, s)
        r2 = ReshapeOperator(tuple(gen.leaves(r1.out_structure())[0].shape), in_structure=s)
        return ('nearmiss/reshape@otherreshape.T', [r1, r2.T]) if rng.integers(2) else ('nearmiss/reshape.T@otherreshape', [r1.T, r2])
    if form == 7:      # P @ P.T of an index operator whose indices repeat (same object: only the duplicate-free case is an identity)
        n0 = s.shape[0]
        k = int(rng.integers(2, n0 + 2))
        arr = rng.integers(0, n0, k)
        arr[int(rng.integers(1, k))] = arr[0]
        idx = (jnp.asarray(arr, dtype=jnp.int32),)
        ix = IndexOperator(idx, in_structure=s, out_structure=gen.index_out_structure(s, idx))
        return 'nearmiss/index@index.T-with-duplicates', [ix, ix.T]
    if form == 8 and s.shape[0] >= 2:
        # two DIFFERENT index operators with equal structures whose indices differ by an integer / a slice only
        n0 = s.shape[0]
        if len(s.shape) >= 2 and rng.integers(2):
            a, b = (int(v) for v in rng.permutation(n0)[:2])
            ia, ib = (a,), (b,)
        else:
            w = int(rng.integers(1, n0))
            a, b = (int(v) for v in rng.permutation(n0 - w + 1)[:2])
            ia, ib = (slice(a, a + w),), (slice(b, b + w),)
        p = IndexOperator(ia, in_structure=s, out_structure=gen.index_out_structure(s, ia))
        q = IndexOperator(ib, in_structure=s, out_structure=gen.index_out_structure(s, ib))
        return ('nearmiss/index@otherindex.T-static', [p, q.T]) if rng.integers(2) else ('nearmiss/index.T@otherindex-static', [q.T, p])
    if form == 9 and s.shape[0] >= 2:
        # slice-only indexing that keeps every shape but is NOT the identity: a reversal (negative step over a whole axis),
        # alone and next to a diagonal operator
        n0 = s.shape[0]
        sl = pick(rng, [slice(None, None, -1), slice(n0 - 1, None, -1), slice(-1, None, -1)])
        idx9 = (sl,) if rng.integers(2) or len(s.shape) < 2 else (Ellipsis, slice(None, None, -1))
        rev = IndexOperator(idx9, in_structure=s, out_structure=gen.index_out_structure(s, idx9))
        d = gen.a_diagonal(rng, s)
        if d is None or rng.integers(2):
            return 'nearmiss/index-reversal', [rev]
        return 'nearmiss/index-reversal@diagonal', [d, rev]
    if form == 10:
        # two DIFFERENT ravels that coincide on the first leaf only (leaves of different ranks): ravel_a @ ravel_b.T is not an identity
        dt10 = _dt(rng)
        st10 = [S((2, 3), dt10), S((2, 3, 4), dt10)]
        ra, rb = RavelOperator(0, -1, in_structure=st10), RavelOperator(0, 1, in_structure=st10)
        return ('nearmiss/ravel@otherravel.T', [rb, ra.T]) if rng.integers(2) else ('nearmiss/ravel@otherravel.T', [ra, rb.T])
    # lazy inverse next to an equal but different operator
    band = jnp.asarray([4.0, 1.0], dtype=s.dtype)
    x1 = SymmetricBandToeplitzOperator(band, s, method='dense')
    x2 = SymmetricBandToeplitzOperator(jnp.asarray([5.0, 1.0], dtype=s.dtype), s, method='dense')
    return ('nearmiss/X.I@otherX', [x1.I, x2]) if rng.integers(2) else ('nearmiss/X@otherX.I', [x1, x2.I])


def p_blockdiag_identities(rng: Any) -> tuple[str, list[Any]]:
    """X, BlockDiagonal(blocks that reduce to identities), X.T-like neighbours: the block-diagonal operand must
    disappear (identity factor) and the neighbours must then be simplified together."""
    n = int(rng.integers(1, 4))
    blocks = []
    for _ in range(n):
        s = _leaf(rng)
        form = int(rng.integers(3))
        if form == 0:
            p = gen.a_pack(rng, s)
            blocks.append(CompositionOperator([p, p.T]))          # P @ P.T -> I
        elif form == 1:
            _, seg = p_reshape(rng)
            blocks.append(CompositionOperator(list(seg)))          # R @ R.T or R.T @ R -> I
        else:
            blocks.append(IdentityOperator(s))
    bd = BlockDiagonalOperator(_block_container(rng, blocks))
    st = bd.in_structure()
    if rng.integers(2) and gen.struct_eq(bd.out_structure(), st):
        d = gen.atom(rng, st, only=('dense',))          # applied after the block-diagonal operand
        if gen.struct_eq(d.in_structure(), st):
            return 'blockdiag_identities', [d, bd]
    return 'blockdiag_identities', [bd]


def p_blocks_cancel(rng: Any) -> tuple[str, list[Any]]:
    """Two block-diagonal operators with the same layout whose blocks cancel pairwise (move-axis and its transpose, a
    reshape and its transpose, P and P.T): the block rule yields an identity in the middle of the scan."""
    n = int(rng.integers(1, 4))
    lefts, rights = [], []
    for _ in range(n):
        form = int(rng.integers(3))
        if form == 0:
            _, (l, r) = p_moveaxis(rng)
        elif form == 1:
            _, (l, r) = p_reshape(rng)
        else:
            _, (l, r) = p_pack(rng)
        lefts.append(l)
        rights.append(r)
    c = _block_container(rng, lefts)
    return 'blocks_cancel', [BlockDiagonalOperator(c), BlockDiagonalOperator(_same_container(c, lefts, rights))]


def p_blocks_after_mismatch(rng: Any) -> tuple[str, list[Any]]:
    """A valid product of two block operators that cannot be paired block by block (one side stores a single block acting on
    the whole container), followed in the same chain by a pair of the SAME two classes that can: the second pair must still be
    simplified (whether a pair simplifies depends on the instances, not on the classes)."""
    if rng.integers(2):
        _, (d1, d2) = p_blocks(rng, 2)                       # Diag @ Diag
        whole = d1.out_structure()
        k = gen.a_diagonal(rng, whole) if rng.integers(2) else None
        if k is None:
            k = HomothetyOperator(jnp.asarray(float(rng.integers(2, 5)), dtype=gen.data_dtype(whole)), whole)
        return 'blocks/diag@diag-after-mismatch', [BlockDiagonalOperator(k), d1, d2]
    _, (r2, k2) = p_blocks(rng, 3)                           # Row @ Col
    common = r2.out_structure()
    n = int(rng.integers(2, 4))
    mids = [_leaf(rng) for _ in range(n)]
    col = [gen.leaf_connector(rng, common, m) for m in mids]
    row = [gen.leaf_connector(rng, m, _leaf(rng) if False else common) for m in mids]
    c = _block_container(rng, col)
    k1 = BlockColumnOperator(BlockColumnOperator(c))         # one block whose OUTPUT is the container
    r1 = BlockRowOperator(_same_container(c, col, row))
    return 'blocks/row@col-after-mismatch', [r1, k1, r2, k2]


def p_blocks_triple(rng: Any) -> tuple[str, list[Any]]:
    """Three block-diagonal operators with the same layout whose first block-wise product does not collapse (HWP then a
    rotation) and whose third blocks complete a documented pattern with the second (two consecutive rotations)."""
    n = int(rng.integers(1, 3))
    sts = [_stokes(rng) for _ in range(n)]
    b1 = [HWPOperator(st) for st in sts]
    b2 = [QURotationOperator(gen.angles_for(rng, st), st) for st in sts]
    b3 = [QURotationOperator(gen.angles_for(rng, st), st) for st in sts]
    c = _block_container(rng, b1)
    return 'blocks_triple/hwp,rot,rot', [BlockDiagonalOperator(c), BlockDiagonalOperator(_same_container(c, b1, b2)),
                                          BlockDiagonalOperator(_same_container(c, b1, b3))]


PATTERNS = {
    'inverse': p_inverse,
    'qurot': p_qurot,
    'qurot_hwp': p_qurot_hwp,
    'pol_hwp': p_pol_hwp,
    'pol_rot_hwp': p_pol_rot_hwp,
    'blocks': p_blocks,
    'index_transpose': p_index_transpose,
    'pack': p_pack,
    'transpose_index': p_transpose_index,
    'reshape': p_reshape,
    'moveaxis': p_moveaxis,
    'nearmiss': p_nearmiss,
    'blockdiag_identities': p_blockdiag_identities,
    'blocks_cancel': p_blocks_cancel,
    'blocks_after_mismatch': p_blocks_after_mismatch,
    'blocks_triple': p_blocks_triple,
}

INERT = ('dense', 'diagonal', 'toeplitz', 'broadcast_diagonal')


def inert(rng: Any, s: Any) -> Any:
    """An operator no documented pattern speaks about (never an identity, scalar, rotation, ...)."""
    if gen.is_sds(s) or not gen.is_stokes(s):
        op = gen.atom(rng, s, only=INERT)
    else:
        op = gen.atom(rng, s, only=('dense', 'diagonal'))
    if type(op).__name__ == 'IdentityOperator':
        op = gen.a_dense(rng, s)
    return op


def inert_chain(rng: Any, s: Any, n: int) -> list[Any]:
    """n inert operators applied successively starting from structure s (returned left-to-right)."""
    ops: list[Any] = []
    cur = s
    for _ in range(n):
        op = inert(rng, cur)
        if op is None:
            break
        ops.append(op)
        cur = op.out_structure()
    return list(reversed(ops))


def embed(rng: Any, segments: list[list[Any]], n_left: int, n_mid: int, n_right: int,
          scalars: int = 0) -> tuple[list[Any], list[float]] | None:
    """Builds one flat operand list: left context, segment, (connector + mid context, segment)*,
    right context.  Returns (operands left-to-right, injected scalar values)."""
    ops: list[Any] = []
    # right-most part first (applied first)
    seg = segments[-1]
    right_ctx: list[Any] = []
    if n_right:
        start = gen.rand_struct(rng) if rng.integers(2) else seg[-1].in_structure()
        ctx = inert_chain(rng, start, n_right)
        cur = ctx[0].out_structure() if ctx else start
        if not gen.struct_eq(cur, seg[-1].in_structure()):
            c = gen.connector(rng, cur, seg[-1].in_structure())
            if c is None:
                return None
            ctx = [c] + ctx
        right_ctx = ctx
    ops = list(seg) + right_ctx
    for seg in reversed(segments[:-1]):
        cur = ops[0].out_structure()
        mid = inert_chain(rng, cur, n_mid)
        cur = mid[0].out_structure() if mid else cur
        link: list[Any] = []
        if not gen.struct_eq(cur, seg[-1].in_structure()):
            c = gen.connector(rng, cur, seg[-1].in_structure())
            if c is None:
                return None
            link = [c]
        ops = list(seg) + link + mid + ops
    left = inert_chain(rng, ops[0].out_structure(), n_left)
    ops = left + ops
    values: list[float] = []
    for _ in range(scalars):
        pos = int(rng.integers(0, len(ops) + 1))
        st = ops[pos].out_structure() if pos < len(ops) else ops[-1].in_structure()
        k = float(pick(rng, [-2, -1, -0.5, 0.5, 2, 4, 0.25]))
        values.append(k)
        dt = gen.data_dtype(st)
        # scalar factors held as JAX arrays or as NumPy 0-d arrays (both are accepted scalar values)
        ops.insert(pos, HomothetyOperator(np.asarray(k, dtype=dt) if rng.integers(2) else jnp.asarray(k, dtype=dt), st))
    return ops, values
