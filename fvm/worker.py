"""One worker process: sets the JAX mode, installs the monitors, runs one shard of a workload and
dumps the monitor log as JSON.  Started by ``fvm.runner`` (never through multiprocessing)."""

from __future__ import annotations

import argparse
import faulthandler
import importlib
import json
import os
import sys
import time
import traceback
from typing import Any


class _Done(Exception):
    pass


def start_reach() -> set[str]:
    """Function-entry tracer (sys.monitoring, each code object reports once and is then disabled): which functions of
    the library under test this worker actually executed.  The runner turns an anchored function that no worker
    reached into an inconclusive verdict."""
    seen: set[str] = set()
    mon = getattr(sys, 'monitoring', None)
    if mon is None:
        return seen
    prefix = os.path.join(os.path.realpath(os.environ.get('FVM_REPO', '/repo')), 'src', 'furax') + os.sep
    tool = 4
    try:
        mon.use_tool_id(tool, 'fvm-reach')
    except ValueError:
        return seen

    def on_start(code: Any, offset: int) -> Any:
        fn = code.co_filename
        if fn.startswith(prefix):
            seen.add(fn[len(prefix):] + ':' + code.co_qualname)
        return mon.DISABLE

    mon.register_callback(tool, mon.events.PY_START, on_start)
    mon.set_events(tool, mon.events.PY_START)
    return seen


def main() -> int:
    ap = argparse.ArgumentParser()
    ap.add_argument('--prop', required=True)
    ap.add_argument('--tier', default='quick')
    ap.add_argument('--seed', type=int, default=0)
    ap.add_argument('--x64', type=int, default=0)
    ap.add_argument('--shard', type=int, default=0)
    ap.add_argument('--nshards', type=int, default=1)
    ap.add_argument('--budget', type=float, default=60.0)
    ap.add_argument('--out', required=True)
    ap.add_argument('--only-index', type=int, default=None)
    ap.add_argument('--part', default=None)
    args = ap.parse_args()

    os.environ['JAX_ENABLE_X64'] = '1' if args.x64 else '0'
    os.environ.setdefault('JAX_PLATFORMS', 'cpu')
    faulthandler.enable()
    faulthandler.dump_traceback_later(args.budget * 4 + 600, exit=True)

    reached = start_reach()

    import jax

    jax.config.update('jax_enable_x64', bool(args.x64))
    cache = os.environ.get('FVM_JAX_CACHE')
    if cache:
        try:
            jax.config.update('jax_compilation_cache_dir', cache)
            jax.config.update('jax_persistent_cache_min_compile_time_secs', 0)
            jax.config.update('jax_persistent_cache_min_entry_size_bytes', -1)
        except Exception:  # noqa: BLE001
            pass
    import warnings

    warnings.filterwarnings('ignore')

    from fvm import monitors
    from fvm.core import LOG
    from fvm.workload import Ctx

    t0 = time.time()
    status = 'ok'
    err = None
    try:
        installed = monitors.install()
        if args.part == 'pytest':
            # the repository's own tests as an additional workload (outcomes ignored)
            import pytest

            from fvm.props import PROPS

            cfg = PROPS[args.prop]['pytest']
            os.environ['FVM_GROUPS'] = ','.join(cfg['groups'])
            os.environ['FVM_PROP'] = args.prop
            repo = os.environ.get('FVM_REPO', '/repo')
            os.chdir(repo)
            files = cfg['files'][args.shard::args.nshards]
            if files:
                pytest.main(['-q', '-p', 'no:cacheprovider', '-p', 'fvm.pytest_plugin', '--timeout=600', '-x' if False else '-q',
                             '--no-header', '-W', 'ignore'] + [os.path.join(repo, f) for f in files])
            raise _Done()
        mod = importlib.import_module(f'fvm.workloads.{args.prop.lower()}')
        ctx = Ctx(prop=args.prop, tier=args.tier, seed=args.seed, x64=args.x64, shard=args.shard,
                  nshards=args.nshards, deadline=t0 + args.budget, only_index=args.only_index,
                  part=args.part)
        mod.run(ctx)
    except _Done:
        pass
    except BaseException as exc:  # noqa: BLE001
        status = 'crashed'
        err = ''.join(traceback.format_exception(exc))[-4000:]
        installed = {}
    out = LOG.dump()
    out.update(status=status, error=err, wall_s=time.time() - t0, x64=args.x64, shard=args.shard,
               installed=installed, part=args.part, reached=sorted(reached))
    with open(args.out, 'w') as f:
        json.dump(out, f, default=str)
    return 0


if __name__ == '__main__':
    sys.exit(main())
