"""pytest plugin: runs the repository's own tests as an additional workload under the monitors.

Loaded with ``-p fvm.pytest_plugin``; does nothing unless FURAX_VERIF=1.  The monitor groups named
in FVM_GROUPS (comma separated) are enabled before collection.  Test outcomes are ignored by the
caller: only what the monitors observed counts."""

from __future__ import annotations

import os


def pytest_configure(config):  # type: ignore[no-untyped-def]
    if os.environ.get('FURAX_VERIF') != '1':
        return
    from fvm import monitors
    from fvm.core import LOG, enable

    monitors.install()
    enable(*[g for g in os.environ.get('FVM_GROUPS', '').split(',') if g])
    LOG.case = {'part': 'pytest'}


def pytest_runtest_setup(item):  # type: ignore[no-untyped-def]
    if os.environ.get('FURAX_VERIF') != '1':
        return
    from fvm.core import LOG

    LOG.case = {'part': 'pytest', 'test': item.nodeid, 'property': os.environ.get('FVM_PROP'), 'x64': 0,
                'tier': 'thorough', 'seed': 0, 'index': 0}
    LOG.count('cases', 'pytest')
