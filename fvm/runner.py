"""Check runner: shards a workload over worker processes, merges the monitor logs, classifies
violations against the known-findings file, writes the evidence file and decides the exit code.

Exit codes: 0 held on everything observed; 1 violation (prints ``VIOLATION property=<id>
replay=<path>``); 2 inconclusive (never folded into 0 or 1).
"""

from __future__ import annotations

import argparse
import fnmatch
import hashlib
import json
import os
import shutil
import subprocess
import sys
import tempfile
import time
from collections import Counter
from typing import Any

ROOT = os.path.dirname(os.path.dirname(os.path.abspath(__file__)))
PY = '/venv/bin/python'
REPO = os.environ.get('FVM_REPO', '/repo')
# evidence is only ever written under /verif/evidence for runs against /repo itself; runs against a
# scratch copy (FVM_REPO, used to try the checks on deliberately broken trees) write elsewhere
EVIDENCE_DIR = os.path.join(ROOT, 'evidence') if REPO == '/repo' else os.path.join(
    ROOT, '.scratch', 'evidence-' + os.path.basename(REPO.rstrip('/')))


def load_props() -> dict[str, Any]:
    sys.path.insert(0, ROOT)
    from fvm.props import PROPS

    return PROPS


def known_findings() -> list[dict[str, Any]]:
    path = os.path.join(ROOT, 'known_findings.json')
    if not os.path.exists(path):
        return []
    with open(path) as f:
        return json.load(f).get('findings', [])


def worker_env(scratch: str) -> dict[str, str]:
    env = dict(os.environ)
    env['PYTHONPATH'] = f'{ROOT}:{REPO}/src' + (':' + env['PYTHONPATH'] if env.get('PYTHONPATH') else '')
    env['PYTHONHASHSEED'] = '0'
    env['JAX_PLATFORMS'] = 'cpu'
    env['XLA_FLAGS'] = '--xla_cpu_multi_thread_eigen=false intra_op_parallelism_threads=1'
    env['OMP_NUM_THREADS'] = '1'
    env['OPENBLAS_NUM_THREADS'] = '1'
    env['MKL_NUM_THREADS'] = '1'
    env['FVM_SCRATCH'] = scratch
    env['FURAX_VERIF'] = '1'
    env['PYTHONDONTWRITEBYTECODE'] = '1'
    cache = os.path.join(ROOT, '.scratch', 'jaxcache')
    try:
        os.makedirs(cache, exist_ok=True)
        total = 0
        for dp, _, fns in os.walk(cache):
            for fn in fns:
                total += os.path.getsize(os.path.join(dp, fn))
        if total > 600 << 20:
            shutil.rmtree(cache, ignore_errors=True)
            os.makedirs(cache, exist_ok=True)
        env['FVM_JAX_CACHE'] = cache
    except OSError:
        pass
    env.pop('JAX_ENABLE_X64', None)
    return env


def run_workers(prop: str, cfg: dict[str, Any], tier: str, seed: int, scratch: str,
                only: dict[str, Any] | None = None) -> tuple[list[dict[str, Any]], list[str]]:
    budget = float(cfg['budget'][tier])
    jobs = []
    if only is not None:
        modes = [(int(only['x64']), 1, only.get('part'))]
    else:
        modes = []
        for mode in (cfg.get('modes_thorough') if tier == 'thorough' and cfg.get('modes_thorough') else cfg['modes']):
            x64, nshards = mode[0], mode[1]
            part = mode[2] if len(mode) > 2 else None
            modes.append((x64, nshards, part))
    env = worker_env(scratch)
    for x64, nshards, part in modes:
        for shard in range(nshards):
            out = os.path.join(scratch, f'w-{x64}-{part}-{shard}.json')
            cmd = [PY, '-X', 'dev', '-W', 'ignore', '-m', 'fvm.worker', '--prop', prop, '--tier', tier,
                   '--seed', str(seed), '--x64', str(x64), '--shard', str(shard), '--nshards',
                   str(nshards), '--budget', str(budget), '--out', out]
            if part:
                cmd += ['--part', part]
            if only is not None:
                cmd += ['--only-index', str(only['index'])]
            log = open(out + '.log', 'w')
            p = subprocess.Popen(cmd, cwd=ROOT, env=env, stdout=log, stderr=subprocess.STDOUT)
            jobs.append((p, out, log, cmd))
    results, problems = [], []
    watchdog = time.time() + budget * 4 + 900
    for p, out, log, cmd in jobs:
        try:
            p.wait(timeout=max(1.0, watchdog - time.time()))
        except subprocess.TimeoutExpired:
            p.kill()
            problems.append(f'watchdog: worker {os.path.basename(out)} killed')
        log.close()
        if os.path.exists(out):
            with open(out) as f:
                r = json.load(f)
            if r.get('status') != 'ok':
                problems.append(f'worker {os.path.basename(out)} crashed: {str(r.get("error"))[-800:]}')
            results.append(r)
        else:
            tail = ''
            try:
                with open(out + '.log') as f:
                    tail = f.read()[-1200:]
            except OSError:
                pass
            problems.append(f'worker {os.path.basename(out)} wrote no result (rc={p.returncode}): {tail}')
    return results, problems


def merge(results: list[dict[str, Any]]) -> dict[str, Any]:
    counters: dict[str, dict[str, Any]] = {}
    hist: dict[str, Counter] = {}
    cases: dict[str, bool] = {}
    violations: list[dict[str, Any]] = []
    samples: list[Any] = []
    notes: list[str] = []
    by_mode: Counter = Counter()
    reached: set[str] = set()
    for r in results:
        reached.update(r.get('reached', []))
        for k, v in r.get('counters', {}).items():
            c = counters.setdefault(k, {'evaluated': 0, 'violated': 0, 'skipped': Counter()})
            c['evaluated'] += v['evaluated']
            c['violated'] += v['violated']
            c['skipped'].update(v['skipped'])
            by_mode[f'x64={r.get("x64")}'] += v['evaluated']
        for k, v in r.get('hist', {}).items():
            hist.setdefault(k, Counter()).update(v)
        for k, v in r.get('cases', {}).items():
            cases[k] = cases.get(k, False) or v
        violations += r.get('violations', [])
        for s in r.get('samples', []):
            if len(samples) < 8:
                samples.append(s)
        notes += r.get('notes', [])[:3]
    return {'counters': counters, 'hist': hist, 'cases': cases, 'violations': violations,
            'samples': samples, 'notes': notes[:12], 'by_mode': dict(by_mode), 'reached': reached}


def classify(prop: str, violations: list[dict[str, Any]]) -> tuple[dict[str, list], dict[str, list]]:
    open_findings = [f for f in known_findings() if f.get('status') == 'open' and f.get('property') == prop]
    known: dict[str, list] = {}
    new: dict[str, list] = {}
    for v in violations:
        key = v['key']
        match = next((f for f in open_findings if fnmatch.fnmatchcase(key, f['key'])), None)
        (known if match else new).setdefault(key, []).append(v)
    return known, new


def check(prop: str, tier: str, seed: int, replay: str | None = None) -> int:
    props = load_props()
    if prop not in props:
        print(f'unknown property {prop}')
        return 2
    cfg = props[prop]
    t0 = time.time()
    os.makedirs(os.path.join(ROOT, '.scratch'), exist_ok=True)
    scratch = tempfile.mkdtemp(prefix=f'run-{prop}-', dir=os.path.join(ROOT, '.scratch'))
    replay_dir = os.path.join(EVIDENCE_DIR, 'replays')
    os.makedirs(replay_dir, exist_ok=True)
    only = None
    try:
        if replay:
            with open(replay) as f:
                rp = json.load(f)
            only = rp['case']
            tier, seed = only['tier'], int(only['seed'])
        else:
            for fn in os.listdir(replay_dir):
                if fn.startswith(prop + '-'):
                    os.remove(os.path.join(replay_dir, fn))
        results, problems = run_workers(prop, cfg, tier, seed, scratch, only)
        m = merge(results)
    finally:
        shutil.rmtree(scratch, ignore_errors=True)

    # violations that belong to this property only (monitors of other groups are not enabled)
    violations = [v for v in m['violations'] if v['property'] == prop]
    known, new = classify(prop, violations)

    deciding = cfg['deciding']
    evaluations = sum(m['counters'].get(d, {}).get('evaluated', 0) for d in deciding)
    inconclusive: list[str] = list(problems)
    if not replay:
        for d, mins in deciding.items():
            got = m['counters'].get(d, {}).get('evaluated', 0)
            need = mins[0] if tier == 'quick' else mins[1]
            if got < need:
                inconclusive.append(f'deciding monitor {d} evaluated {got} < {need}')
            skipped = m['counters'].get(d, {}).get('skipped', {})
            bad = sum(n for r, n in skipped.items() if r.startswith('oracle'))
            if got + bad > 0 and bad > 0.05 * (got + bad):
                inconclusive.append(f'deciding monitor {d}: {bad} oracle skips vs {got} evaluations')
        drv = m['counters'].get('driver', {}).get('skipped', {})
        nerr = sum(drv.values())
        ncases = sum(m['hist'].get('cases', {}).values())
        if ncases and nerr > 0.05 * ncases:
            inconclusive.append(f'{nerr} of {ncases} cases could not be built or driven: '
                                f'{dict(Counter(drv).most_common(3))}')
        for req_hist, req_keys in cfg.get('require_hist', {}).get(tier, {}).items():
            have = m['hist'].get(req_hist, {})
            missing = [k for k in req_keys if not have.get(k)]
            if missing:
                inconclusive.append(f'{req_hist}: never observed {missing}')

    anchors = {}
    for pat in cfg.get('anchors', []):
        hits = [f for f in m['reached'] if fnmatch.fnmatchcase(f, pat)]
        anchors[pat] = len(hits)
        if not hits and not replay:
            inconclusive.append(f'anchored function {pat} was never executed by the workload')
    distinct = sum(1 for v in m['cases'].values() if v)
    wall = time.time() - t0
    ev = {
        'property_id': prop,
        'tier': tier,
        'seed': seed,
        'level': cfg.get('level', 'exploration'),
        'coverage': {
            'evaluations': int(evaluations),
            'distinct_nontrivial': int(distinct),
            'distinct_cases': len(m['cases']),
            'rule': cfg['rule'],
            'samples': m['samples'] or ['(no sample recorded)'],
            'exhaustive': bool((cfg.get('exhaustive') or {}).get(tier, False)) and not any(
                k.startswith('time-capped') for k in m['hist'].get('budget', {})),
            'monitors': {k: {'evaluated': v['evaluated'], 'violated': v['violated'],
                             'skipped': dict(v['skipped'])} for k, v in sorted(m['counters'].items())},
            'histograms': {k: dict(Counter(v).most_common(60)) for k, v in sorted(m['hist'].items())},
            'evaluations_by_mode': m['by_mode'],
            'anchored_functions_reached': anchors,
            'library_functions_executed': len(m['reached']),
            'library_functions_executed_list': sorted(m['reached']),
            'workers': len(results),
            'verdict': 'violated' if new else ('inconclusive' if inconclusive else 'held-on-observed'),
            'inconclusive_reasons': inconclusive,
            'known_findings_observed': sorted(known),
            'violation_keys': {k: len(v) for k, v in new.items()},
            'violation_witnesses': [vs[0] for vs in list(new.values())[:10]],
            'notes': m['notes'],
        },
        'assumptions': cfg.get('assumptions', []),
        'wall_s': round(wall, 2),
        'violations': len(violations) - sum(len(v) for v in known.values()),
    }
    if not replay:
        os.makedirs(EVIDENCE_DIR, exist_ok=True)
        with open(os.path.join(EVIDENCE_DIR, f'{prop}.json'), 'w') as f:
            json.dump(ev, f, indent=1, default=str)

    for key, vs in sorted(known.items()):
        print(f'KNOWN-FINDING: property={prop} {key}: {vs[0]["msg"][:160]} (observed {len(vs)}x)')
    print(f'[{prop}] tier={tier} seed={seed} evaluations={evaluations} distinct_nontrivial={distinct} '
          f'workers={len(results)} wall={wall:.1f}s')
    for d in deciding:
        c = m['counters'].get(d, {'evaluated': 0, 'violated': 0, 'skipped': {}})
        print(f'  monitor {d}: evaluated={c["evaluated"]} violated={c["violated"]} '
              f'skipped={dict(Counter(c["skipped"]).most_common(4))}')
    if new:
        for key, vs in sorted(new.items()):
            v = vs[0]
            h = hashlib.sha1(key.encode()).hexdigest()[:10]
            path = os.path.join(replay_dir, f'{prop}-{h}.json')
            if not replay:
                with open(path, 'w') as f:
                    json.dump({'case': v['case'], 'violation': v, 'count': len(vs)}, f, indent=1, default=str)
            else:
                path = replay
            print(f'  witness [{key}] x{len(vs)}: {v["msg"][:200]}')
            print(f'      case: {v.get("case")}')
            for dk, dv in list(v.get('detail', {}).items())[:4]:
                print(f'      {dk}: {str(dv)[:300]}')
            print(f'VIOLATION property={prop} replay={path}')
        return 1
    if inconclusive:
        for r in inconclusive:
            print(f'INCONCLUSIVE: {r[:1500]}')
        return 2
    return 0


def main() -> int:
    ap = argparse.ArgumentParser()
    ap.add_argument('prop')
    ap.add_argument('--tier', default=os.environ.get('VERIF_TIER', 'quick'), choices=['quick', 'thorough'])
    ap.add_argument('--seed', type=int, default=int(os.environ.get('VERIF_SEED', '0')))
    ap.add_argument('--replay', default=None)
    a = ap.parse_args()
    return check(a.prop.upper(), a.tier, a.seed, a.replay)


if __name__ == '__main__':
    sys.exit(main())
