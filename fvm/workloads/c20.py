"""C20 workload: Stokes containers as component-wise arrays, and the furax.tree helpers."""

from __future__ import annotations

import operator
from typing import Any

import jax
import jax.numpy as jnp
import numpy as np

import furax
from furax.landscapes import StokesIPyTree, StokesIQUPyTree, StokesIQUVPyTree, StokesPyTree, StokesQUPyTree

from .. import gen
from ..core import LOG, guarded
from ..workload import Ctx, drive

KINDS = {'I': StokesIPyTree, 'QU': StokesQUPyTree, 'IQU': StokesIQUPyTree, 'IQUV': StokesIQUVPyTree}
OPS = {'add': operator.add, 'sub': operator.sub, 'mul': operator.mul, 'truediv': operator.truediv, 'pow': operator.pow}


def comps(x: Any) -> list[Any]:
    return [getattr(x, c.lower()) for c in type(x).stokes]


def rand_stokes(rng: Any, cls: Any, shape: tuple[int, ...], dt: Any, positive: bool = False) -> Any:
    arrs = []
    for _ in cls.stokes:
        v = rng.integers(1 if positive else -6, 7, size=shape) / (1 if np.dtype(dt).kind == 'i' else 2)
        v = np.where(v == 0, 1.5, v)
        arrs.append(jnp.asarray(v, dtype=dt))
    return cls(*arrs)


def dtypes(ctx: Ctx) -> list[Any]:
    return [np.float16, np.float32] + ([np.float64] if ctx.x64 else [])


def case_arith(rng: Any, ctx: Ctx, index: int) -> None:
    kind = gen.pick(rng, sorted(KINDS))
    cls = KINDS[kind]
    shape = gen.pick(rng, [(3,), (2, 3), (1,), (2, 1, 2)])
    dt = np.dtype(gen.pick(rng, dtypes(ctx) + [np.int32]))      # integer-valued components too
    opname = gen.pick(rng, sorted(OPS))
    if dt.kind == 'i' and opname == 'pow':
        opname = 'mul'
    op = OPS[opname]
    s = rand_stokes(rng, cls, shape, dt, positive=opname == 'pow')
    okind = gen.pick(rng, ['pyint', 'pyfloat', 'npscalar', 'jnpscalar', 'array0d', 'array1d', 'arrayfull', 'same-kind', 'same-kind-otherdtype'])
    odt = np.dtype(gen.pick(rng, dtypes(ctx)))
    small = opname == 'pow'
    if okind == 'pyint':
        other: Any = int(gen.pick(rng, [2, 3] if small else [-3, 2, 5]))
    elif okind == 'pyfloat':
        other = float(gen.pick(rng, [0.5, 2.0] if small else [-1.5, 0.5, 2.5]))
    elif okind == 'npscalar':
        other = odt.type(gen.pick(rng, [2.0, 0.5] if small else [-1.5, 2.0]))
    elif okind == 'jnpscalar':
        other = jnp.asarray(gen.pick(rng, [2.0, 0.5]), dtype=odt)
    elif okind == 'array0d':
        other = jnp.asarray(1.5, dtype=odt)
    elif okind == 'array1d':
        other = jnp.asarray(rng.integers(1, 5, size=shape[-1:]) / 2, dtype=odt)
    elif okind == 'arrayfull':
        other = jnp.asarray(rng.integers(1, 5, size=shape) / 2, dtype=odt)
    elif okind == 'same-kind':
        other = rand_stokes(rng, cls, shape, dt, positive=True)
    else:
        other = rand_stokes(rng, cls, shape, odt, positive=True)
    reflected = bool(rng.integers(2))
    LOG.case_key(f'{kind}:{opname}:{"r" if reflected else ""}{okind}:{dt.name}/{odt.name}', opname in ('sub', 'truediv', 'pow') or dt != odt)

    def judge() -> None:
        mon = 'C20.arith'
        try:
            got = op(other, s) if reflected else op(s, other)
        except Exception as exc:  # noqa: BLE001
            LOG.evaluated(mon)
            LOG.violation('C20', mon, f'{opname}/{"reflected" if reflected else "forward"}/{okind}/raises-{type(exc).__name__}', str(exc)[:150], kind=kind)
            return
        LOG.evaluated(mon)
        where = f'{opname}/{"reflected" if reflected else "forward"}/{okind}'
        if type(got) is not cls:
            LOG.violation('C20', mon, f'{where}/class', f'{type(got).__name__} instead of {cls.__name__}')
            return
        ocomps = comps(other) if isinstance(other, StokesPyTree) else [other] * len(kind)
        for name, g, a, b in zip(kind, comps(got), comps(s), ocomps):
            ref = op(b, a) if reflected else op(a, b)          # the same operation on the bare component
            an, bn = np.asarray(a, np.float64), np.asarray(b, np.float64)
            ref64 = op(bn, an) if reflected else op(an, bn)    # NumPy, float64, operand order preserved
            if reflected and okind == 'npscalar' and g.dtype != ref.dtype:
                # NumPy hands its scalar to __r<op>__ of a foreign object as a Python float (NumPy's own
                # dispatch): the weakly-typed result is accepted as well
                ref = op(float(b), a)
            if g.shape != ref.shape or g.dtype != ref.dtype:
                LOG.violation('C20', mon, f'{where}/shape-dtype', f'component {name}: {g.dtype}{g.shape} vs {ref.dtype}{ref.shape}', kind=kind)
                return
            tol = {2: 2e-2, 4: 1e-5, 8: 1e-12}[np.dtype(g.dtype).itemsize] if np.dtype(g.dtype).kind == 'f' else 0
            if not np.allclose(np.asarray(g, np.float64), ref64, rtol=tol, atol=tol):
                LOG.violation('C20', mon, f'{where}/values', f'component {name} differs from the component-wise NumPy result', kind=kind,
                              got=np.asarray(g).tolist(), expected=ref64.tolist())
                return
    guarded('C20.arith', judge)


def case_reject(rng: Any, ctx: Ctx, index: int) -> None:
    k1, k2 = gen.pick(rng, sorted(KINDS)), gen.pick(rng, sorted(KINDS))
    if k1 == k2:
        k2 = {'I': 'QU', 'QU': 'IQU', 'IQU': 'IQUV', 'IQUV': 'I'}[k1]
    a, b = rand_stokes(rng, KINDS[k1], (3,), np.float32), rand_stokes(rng, KINDS[k2], (3,), np.float32)
    opname = gen.pick(rng, sorted(OPS) + ['matmul'])
    LOG.case_key(f'reject:{k1}{opname}{k2}', True)
    mon = 'C20.reject'
    try:
        r = operator.matmul(a, b) if opname == 'matmul' else OPS[opname](a, b)
    except TypeError:
        LOG.evaluated(mon)
    except Exception as exc:  # noqa: BLE001
        LOG.evaluated(mon)
        LOG.violation('C20', mon, f'other-kind/{opname}/wrong-error-{type(exc).__name__}', str(exc)[:100])
    else:
        LOG.evaluated(mon)
        LOG.violation('C20', mon, f'other-kind/{opname}/accepted', f'{k1} {opname} {k2} returned {type(r).__name__}')
    for bad in ('', 'IQ', 'iqu', 'UQ', 'IQUVW'):
        try:
            StokesPyTree.class_for(bad)
        except ValueError:
            LOG.evaluated(mon)
        except Exception as exc:  # noqa: BLE001
            LOG.evaluated(mon)
            LOG.violation('C20', mon, f'class_for/wrong-error-{type(exc).__name__}', bad)
        else:
            LOG.evaluated(mon)
            LOG.violation('C20', mon, 'class_for/unknown-accepted', repr(bad))
    try:
        StokesPyTree.from_stokes(Q=jnp.ones(2), V=jnp.ones(2))
    except TypeError:
        LOG.evaluated(mon)
    else:
        LOG.evaluated(mon)
        LOG.violation('C20', mon, 'from_stokes/unknown-accepted', 'keywords q, v')


def case_unary(rng: Any, ctx: Ctx, index: int) -> None:
    kind = gen.pick(rng, sorted(KINDS))
    cls = KINDS[kind]
    shape = gen.pick(rng, [(4,), (2, 3), (2, 1, 2)])
    dt = np.dtype(gen.pick(rng, dtypes(ctx)))
    s = rand_stokes(rng, cls, shape, dt)
    what = gen.pick(rng, ['neg', 'abs', 'pos', 'getitem-int', 'getitem-array', 'getitem-slice', 'getitem-mask', 'ravel', 'reshape', 'dot', 'props'])
    LOG.case_key(f'{kind}:{what}:{len(shape)}d:{dt.name}', True)

    def judge() -> None:
        mon = 'C20.unary'
        idx: Any = None
        if what == 'neg':
            got, f = -s, lambda a: -a
        elif what == 'abs':
            got, f = abs(s), lambda a: np.abs(a)
        elif what == 'pos':
            got, f = +s, lambda a: a
        elif what.startswith('getitem'):
            if what == 'getitem-int':
                idx = int(rng.integers(-shape[0], shape[0]))
            elif what == 'getitem-array':
                idx = jnp.asarray(rng.integers(-shape[0], shape[0], size=3))
            elif what == 'getitem-slice':
                idx = slice(0, None, 2)
            else:
                m = rng.integers(0, 2, size=shape[0]).astype(bool)
                m[0] = True
                idx = jnp.asarray(m)
            got = s[idx]
            ni = np.asarray(idx) if hasattr(idx, 'shape') else idx
            f = lambda a: a[ni]  # noqa: E731
        elif what == 'ravel':
            got, f = s.ravel(), lambda a: a.ravel()
        elif what == 'reshape':
            got, f = s.reshape((-1, shape[-1])), lambda a: a.reshape((-1, shape[-1]))
        elif what == 'dot':
            t = rand_stokes(rng, cls, shape, dt)
            got_v = float(s @ t)
            ref = sum(float(np.vdot(np.asarray(a, np.float64), np.asarray(b, np.float64))) for a, b in zip(comps(s), comps(t)))
            LOG.evaluated(mon)
            if not np.isclose(got_v, ref, rtol={2: 2e-2, 4: 1e-5, 8: 1e-12}[dt.itemsize]):
                LOG.violation('C20', mon, 'matmul/dot', f'{got_v} vs {ref}', kind=kind)
            return
        else:
            LOG.evaluated(mon)
            st = s.structure
            if s.shape != shape or np.dtype(s.dtype) != dt or type(st) is not cls or any(
                    tuple(c.shape) != shape or np.dtype(c.dtype) != dt for c in comps(st)):
                LOG.violation('C20', mon, 'properties/shape-dtype-structure', f'{s.shape} {s.dtype}', kind=kind)
            return
        LOG.evaluated(mon)
        if type(got) is not cls:
            LOG.violation('C20', mon, f'{what}/class', type(got).__name__)
            return
        for name, g, a in zip(kind, comps(got), comps(s)):
            ref = f(np.asarray(a))
            if g.shape != ref.shape or np.dtype(g.dtype) != dt or not np.array_equal(np.asarray(g), ref):
                LOG.violation('C20', mon, f'{what}/component', f'component {name} differs', kind=kind)
                return
    guarded('C20.unary', judge)


def case_factories(rng: Any, ctx: Ctx, index: int) -> None:
    kind = gen.pick(rng, sorted(KINDS))
    cls = KINDS[kind]
    shape = gen.pick(rng, [(4,), (2, 3), (), (50,)])
    dt = np.dtype(gen.pick(rng, dtypes(ctx)))
    what = gen.pick(rng, ['zeros', 'ones', 'full', 'normal', 'uniform', 'structure_for', 'from_stokes', 'from_stokes-kw', 'from_stokes-struct', 'from_iquv', 'defaults'])
    LOG.case_key(f'{kind}:{what}:{len(shape)}d:{dt.name}', True)

    def judge() -> None:
        mon = 'C20.factory'
        LOG.evaluated(mon)
        LOG.count('C20.factory', what)

        def chk(x: Any, exp_dt: Any, exp_shape: tuple[int, ...] = shape, values: Any = None) -> bool:
            if type(x) is not cls:
                LOG.violation('C20', mon, f'{what}/class', f'{type(x).__name__} instead of {cls.__name__}')
                return False
            for name, c in zip(kind, comps(x)):
                if tuple(c.shape) != tuple(exp_shape) or np.dtype(c.dtype) != np.dtype(exp_dt):
                    LOG.violation('C20', mon, f'{what}/shape-dtype', f'component {name}: {c.dtype}{tuple(c.shape)}, expected {np.dtype(exp_dt).name}{exp_shape}', kind=kind)
                    return False
                if values is not None and not np.all(np.asarray(c) == values):
                    LOG.violation('C20', mon, f'{what}/values', f'component {name}', kind=kind)
                    return False
            return True

        key = jax.random.PRNGKey(int(rng.integers(1 << 30)))
        if what == 'zeros':
            chk(cls.zeros(shape, dt), dt, values=0)
        elif what == 'ones':
            chk(cls.ones(shape, dt), dt, values=1)
        elif what == 'full':
            chk(cls.full(shape, 2.5, dt), dt, values=2.5)
        elif what == 'defaults':
            canonical = jnp.zeros(()).dtype  # default float of the active 64-bit mode
            chk(cls.zeros(shape), canonical, values=0) and chk(cls.ones(shape), canonical, values=1) and chk(cls.full(shape, 3), canonical, values=3)
        elif what in ('normal', 'uniform'):
            lo, hi = (-2.0, 3.0)
            x = cls.normal(key, shape, dt) if what == 'normal' else cls.uniform(shape, key, dt, lo, hi)
            if not chk(x, dt):
                return
            cs = [np.asarray(c, np.float64) for c in comps(x)]
            if what == 'uniform' and any((c < lo).any() or (c > hi).any() for c in cs):
                LOG.violation('C20', mon, 'uniform/bounds', f'values outside [{lo}, {hi}]')
            if not all(np.all(np.isfinite(c)) for c in cs):
                LOG.violation('C20', mon, f'{what}/non-finite', '')
            if len(cs) > 1 and cs[0].size >= 4 and any(np.array_equal(cs[0], c) for c in cs[1:]):
                LOG.violation('C20', mon, f'{what}/components-not-independent', 'two components received identical draws', kind=kind)
            y = cls.normal(key, shape, dt) if what == 'normal' else cls.uniform(shape, key, dt, lo, hi)
            if not all(np.array_equal(np.asarray(a), np.asarray(b)) for a, b in zip(comps(x), comps(y))):
                LOG.violation('C20', mon, f'{what}/not-reproducible', 'same key gave different draws')
        elif what == 'structure_for':
            st = cls.structure_for(shape, dt)
            ok = type(st) is cls and all(isinstance(c, jax.ShapeDtypeStruct) and tuple(c.shape) == shape and np.dtype(c.dtype) == dt for c in comps(st))
            if not ok:
                LOG.violation('C20', mon, 'structure_for', 'wrong structure', kind=kind)
        elif what.startswith('from_stokes'):
            dts = [np.dtype(gen.pick(rng, dtypes(ctx))) for _ in kind]
            prom = jnp.result_type(*dts)
            if what == 'from_stokes-struct':
                args = [jax.ShapeDtypeStruct(shape, d) for d in dts]
            else:
                args = [jnp.asarray(rng.integers(-3, 4, size=shape), dtype=d) for d in dts]
            if what == 'from_stokes-kw':
                order = [int(i) for i in rng.permutation(len(kind))]        # keywords in any order
                x = StokesPyTree.from_stokes(**{kind[i]: args[i] for i in order})
            else:
                x = StokesPyTree.from_stokes(*args)
            if chk(x, prom) and what != 'from_stokes-struct':
                for name, c, a in zip(kind, comps(x), args):
                    if not np.array_equal(np.asarray(c, np.float64), np.asarray(a, np.float64)):
                        LOG.violation('C20', mon, f'{what}/values', f'component {name}', kind=kind)
        else:
            dts = [np.dtype(gen.pick(rng, dtypes(ctx))) for _ in 'IQUV']
            args = {c: jnp.asarray(rng.integers(-3, 4, size=shape), dtype=d) for c, d in zip('IQUV', dts)}
            x = cls.from_iquv(args['I'], args['Q'], args['U'], args['V'])
            prom = jnp.result_type(*[args[c].dtype for c in kind])
            if chk(x, prom):
                for name, c in zip(kind, comps(x)):
                    if not np.array_equal(np.asarray(c, np.float64), np.asarray(args[name], np.float64)):
                        LOG.violation('C20', mon, 'from_iquv/values', f'component {name} is not the {name} argument', kind=kind)
    guarded('C20.factory', judge)


def rand_tree(rng: Any, ctx: Ctx, complex_ok: bool = False) -> Any:
    dts = dtypes(ctx) + ([np.complex64] if complex_ok else []) + [np.int32]
    def leaf() -> Any:
        sh = tuple(int(v) for v in rng.integers(1, 4, size=int(rng.integers(0, 3))))
        d = np.dtype(gen.pick(rng, dts))
        v = rng.integers(-4, 5, size=sh).astype(np.float64)
        if d.kind == 'c':
            v = v + 1j * rng.integers(-4, 5, size=sh)
        return jnp.asarray(v, dtype=d)
    form = gen.pick(rng, ['leaf', 'list', 'dict', 'nested', 'stokes', 'tuple'])
    if form == 'leaf':
        return leaf()
    if form == 'list':
        return [leaf() for _ in range(int(rng.integers(1, 4)))]
    if form == 'tuple':
        return (leaf(), leaf())
    if form == 'dict':
        return {'b': leaf(), 'a': leaf()}
    if form == 'nested':
        return {'z': [leaf(), (leaf(),)], 'a': leaf()}
    return rand_stokes(rng, KINDS[gen.pick(rng, sorted(KINDS))], (3,), np.float32)


def case_tree(rng: Any, ctx: Ctx, index: int) -> None:
    what = gen.pick(rng, ['dot', 'dot-complex', 'zeros_like', 'ones_like', 'full_like', 'normal_like', 'uniform_like',
                          'as_promoted_dtype', 'as_promoted_dtype-struct', 'as_promoted_dtype-weak', 'like-history', 'like-mode-toggle',
                          'uniform-range', 'stokes-getitem',
                          'as_structure', 'is_leaf'])
    x = rand_tree(rng, ctx, complex_ok='complex' in what)
    as_struct = bool(rng.integers(2))
    LOG.case_key(f'tree:{what}:{type(x).__name__}:{"struct" if as_struct else "arrays"}', True)
    T = furax.tree

    def judge() -> None:
        mon = 'C20.tree'
        LOG.evaluated(mon)
        LOG.count('C20.tree', what)
        ls, td = jax.tree.flatten(x)
        struct = jax.tree.map(lambda l: jax.ShapeDtypeStruct(l.shape, l.dtype), x)
        src = struct if as_struct else x

        def like(y: Any, values: Any = None, where: str = what) -> bool:
            ly, ty = jax.tree.flatten(y)
            if ty != td:
                LOG.violation('C20', mon, f'{where}/treedef', f'{ty} vs {td}')
                return False
            for a, b in zip(ly, ls):
                if a.shape != b.shape or a.dtype != b.dtype:
                    LOG.violation('C20', mon, f'{where}/shape-dtype', f'{a.dtype}{a.shape} vs {b.dtype}{b.shape}')
                    return False
                if values is not None and not np.all(np.asarray(a) == np.asarray(values).astype(a.dtype)):
                    LOG.violation('C20', mon, f'{where}/values', '')
                    return False
            return True

        if what in ('dot', 'dot-complex'):
            y = jax.tree.map(lambda l: jnp.asarray(np.roll(np.asarray(l), 1) + 1, dtype=l.dtype), x)
            if rng.integers(2):
                # mixed leaves: a complex leaf facing a real one (either side)
                real = jax.tree.map(lambda l: jnp.asarray(np.real(np.asarray(l)) + 2, dtype=jnp.float32), x)
                if rng.integers(2):
                    y = real
                else:
                    x2, y = real, x
                    got = complex(T.dot(x2, y))
                    ref = sum(complex(np.vdot(np.asarray(a), np.asarray(b))) for a, b in zip(jax.tree.leaves(x2), jax.tree.leaves(y)))
                    if not np.isclose(got, ref, rtol=1e-5, atol=1e-5):
                        LOG.violation('C20', mon, f'{what}/value', f'{got} vs Hermitian sum {ref} (real x complex)')
                    return
            got = complex(T.dot(x, y))
            ref = sum(complex(np.vdot(np.asarray(a), np.asarray(b))) for a, b in zip(ls, jax.tree.leaves(y)))
            tol = 2e-2 if any(np.dtype(l.dtype).itemsize == 2 for l in ls) else 1e-5
            if not np.isclose(got, ref, rtol=tol, atol=tol):
                LOG.violation('C20', mon, f'{what}/value', f'{got} vs Hermitian sum {ref}')
        elif what == 'zeros_like':
            like(T.zeros_like(src), 0)
        elif what == 'ones_like':
            like(T.ones_like(src), 1)
        elif what == 'full_like':
            like(T.full_like(src, 3), 3)
        elif what in ('normal_like', 'uniform_like'):
            fl = [l for l in ls if jnp.issubdtype(l.dtype, jnp.floating)]
            if len(fl) != len(ls):
                return
            key = jax.random.PRNGKey(int(rng.integers(1 << 30)))
            y = T.normal_like(src, key) if what == 'normal_like' else T.uniform_like(src, key, -1.0, 2.0)
            if like(y):
                big = [np.asarray(l, np.float64).ravel() for l in jax.tree.leaves(y) if l.size >= 4]
                if what == 'uniform_like' and any((b < -1).any() or (b > 2).any() for b in big):
                    LOG.violation('C20', mon, 'uniform_like/bounds', '')
        elif what == 'as_promoted_dtype-weak':
            # one weakly typed leaf (values derived from Python scalars only) next to strongly typed ones: JAX's promotion lets the
            # strongly typed leaves decide
            i = int(rng.integers(len(ls)))
            weak = jnp.full(ls[i].shape, gen.pick(rng, [0.5, 3, 2.0]))
            assert weak.weak_type
            mixed = jax.tree.unflatten(td, ls[:i] + [weak] + ls[i + 1:])
            prom = jnp.result_type(*jax.tree.leaves(mixed))
            y = T.as_promoted_dtype(mixed)
            ly = jax.tree.leaves(y)
            LOG.count('C20.tree.weak', f'{weak.dtype}+{"/".join(sorted({str(l.dtype) for l in ls[:i] + ls[i + 1:]}))}->{prom}')
            if any(a.dtype != prom for a in ly):
                LOG.violation('C20', mon, 'as_promoted_dtype-weak/dtype', f'{[str(a.dtype) for a in ly]} vs promoted {prom} (one weakly typed leaf)')
        elif what == 'uniform-range':
            # bounds with a non-zero lower bound on a leaf large enough for the statistics to be safe (64+ draws)
            lo_, hi_ = gen.pick(rng, [(-1.0, 2.0), (1.0, 3.0), (2.0, 2.5), (-3.0, -1.0)])
            st = jax.tree.map(lambda l: jax.ShapeDtypeStruct((64,) + tuple(l.shape), jnp.float32), struct)
            yu = T.uniform_like(st, jax.random.PRNGKey(int(rng.integers(1 << 30))), lo_, hi_)
            for a_ in jax.tree.leaves(yu):
                v = np.asarray(a_, np.float64)
                if v.min() < lo_ or v.max() > hi_ or v.max() < lo_ + 0.75 * (hi_ - lo_) or v.min() > lo_ + 0.25 * (hi_ - lo_):
                    LOG.violation('C20', mon, 'uniform_like/range', f'draws in [{v.min():.3g}, {v.max():.3g}] for bounds ({lo_}, {hi_})')
                    return
        elif what == 'stokes-getitem':
            from furax.landscapes import StokesPyTree
            cls_ = gen.pick(rng, gen.STOKES)
            shp = (3, 4, 5)
            xs = cls_(*[jnp.asarray(rng.integers(-8, 9, size=shp), dtype=jnp.float32) for _ in cls_.stokes])
            idx_ = gen.pick(rng, [(1, 2), (slice(None), 1), (Ellipsis, 2), (0, slice(None), 3), 1, slice(0, 2), (np.array([0, 2]), np.array([1, 3]))])
            got = xs[idx_]
            for c_ in cls_.stokes:
                exp_ = np.asarray(getattr(xs, c_.lower()))[idx_]
                g_ = np.asarray(getattr(got, c_.lower()))
                if g_.shape != exp_.shape or not np.array_equal(g_, exp_):
                    LOG.violation('C20', mon, 'StokesPyTree.__getitem__/not-leafwise', f'{cls_.__name__}[{idx_!r}]: component {c_} has shape {g_.shape}, leaf-wise indexing gives {exp_.shape}')
                    return
        elif what == 'like-history':
            # a sequence of calls on the same structure: each result depends on its own fill value only
            seq = [gen.pick(rng, [0, 0.0, False, -0.0, 1, 1.0, True, 3, -2.5]) for _ in range(int(rng.integers(2, 5)))] + [-0.0]
            for v in seq:
                y = T.full_like(src, v) if rng.integers(3) else (T.zeros_like(src) if v == 0 and not (isinstance(v, float) and np.signbit(v)) else T.full_like(src, v))
                if not like(y, None, 'full_like-sequence'):
                    return
                for a in jax.tree.leaves(y):
                    exp = np.full(a.shape, v).astype(a.dtype)
                    if not (np.array_equal(np.asarray(a), exp) and np.array_equal(np.signbit(np.asarray(a).real), np.signbit(exp.real))):
                        LOG.violation('C20', mon, 'full_like-sequence/values', f'fill value {v!r} after {seq}: got {np.asarray(a).ravel()[:3]} ({a.dtype})')
                        return
        elif what == 'like-mode-toggle':
            # the same request before and inside a temporary switch of the 64-bit mode: dtypes follow the mode in force at the call
            wide = jax.tree.map(lambda l: jax.ShapeDtypeStruct(l.shape, np.float64 if np.issubdtype(l.dtype, np.floating) else np.int64), struct)
            fn = gen.pick(rng, [T.zeros_like, T.ones_like, lambda t: T.full_like(t, 3)])
            for mode in (bool(jax.config.jax_enable_x64), not jax.config.jax_enable_x64, bool(jax.config.jax_enable_x64)):
                with jax.enable_x64(mode):
                    y = fn(wide)
                    exp = [jnp.zeros(l.shape, l.dtype).dtype for l in jax.tree.leaves(wide)]
                got = [a.dtype for a in jax.tree.leaves(y)]
                if got != exp:
                    LOG.violation('C20', mon, 'like/mode-toggle/dtype', f'64-bit mode {mode}: {[str(g) for g in got]} vs {[str(e) for e in exp]}')
                    return
        elif what.startswith('as_promoted_dtype'):
            src2 = struct if what.endswith('struct') else x
            y = T.as_promoted_dtype(src2)
            prom = jnp.result_type(*[l.dtype for l in ls])
            ly, ty = jax.tree.flatten(y)
            if ty != td or any(a.dtype != prom or a.shape != b.shape for a, b in zip(ly, ls)):
                LOG.violation('C20', mon, f'{what}/dtype', f'{[str(a.dtype) for a in ly]} vs promoted {prom}')
            elif not what.endswith('struct') and any(not np.array_equal(np.asarray(a), np.asarray(b).astype(prom)) for a, b in zip(ly, ls)):
                LOG.violation('C20', mon, f'{what}/values', '')
            elif what.endswith('struct') and not all(isinstance(a, jax.ShapeDtypeStruct) for a in ly):
                LOG.violation('C20', mon, f'{what}/leaf-type', 'structures must stay structures')
        elif what == 'as_structure':
            y = T.as_structure(x)
            ly, ty = jax.tree.flatten(y)
            if ty != td or any(not isinstance(a, jax.ShapeDtypeStruct) or a.shape != b.shape or a.dtype != b.dtype for a, b in zip(ly, ls)):
                LOG.violation('C20', mon, 'as_structure', '')
        else:
            if T.is_leaf(x) != (len(ls) == 1 and td == jax.tree.structure(0)):
                LOG.violation('C20', mon, 'is_leaf', f'{T.is_leaf(x)} for {td}')
    guarded('C20.tree', judge)


def case(rng: Any, ctx: Ctx, index: int) -> None:
    (case_arith, case_arith, case_unary, case_factories, case_tree, case_reject)[index % 6](rng, ctx, index)


def run(ctx: Ctx) -> None:
    drive(ctx, case, 6000, 60000)
