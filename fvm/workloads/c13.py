"""C13 workload: move-axis, ravel and reshape operators against numpy.moveaxis / reshape."""

from __future__ import annotations

import math
from typing import Any

import jax
import numpy as np

from furax._base.axes import MoveAxisOperator, RavelOperator, ReshapeOperator

from .. import dense, gen
from ..core import LOG, enable, guarded
from ..workload import Ctx, drive

S = gen.S


def structure(rng: Any, shapes: list[tuple[int, ...]], dt: Any) -> Any:
    if len(shapes) == 1:
        return S(shapes[0], dt)
    f = gen.pick(rng, ['list', 'dict', 'tuple'])
    ls = [S(sh, dt) for sh in shapes]
    return ls if f == 'list' else (tuple(ls) if f == 'tuple' else {f'k{9 - i}': l for i, l in enumerate(ls)})


def apply_monitored(op: Any, rng: Any) -> tuple[Any, Any]:
    s = op.in_structure()
    x = jax.tree.map(lambda l: jax.numpy.asarray(rng.integers(-50, 50, size=l.shape), dtype=l.dtype), s)
    y = op.mv(x)                                          # monitored by the reference-model monitor
    back = op.T.mv(y)                                     # monitored (reshape transposes) / moveaxis model
    return x, back


def roundtrip_and_matrix(op: Any, xb: tuple[Any, Any], kind: str, shape_changes: bool) -> None:
    s = op.in_structure()
    x, back = xb
    LOG.evaluated('C13.roundtrip')
    if not all(np.array_equal(np.asarray(a), np.asarray(b)) for a, b in zip(jax.tree.leaves(x), jax.tree.leaves(back))) \
            or jax.tree.structure(x) != jax.tree.structure(back):
        LOG.violation('C13', 'C13.roundtrip', f'{kind}.T/not-inverse', 'A.T(A(x)) != x for a relabelling operator', expr=dense.describe(op))
    if dense.size_of(s) <= 30:
        m = dense.matrix(op)
        LOG.evaluated('C13.permutation')
        perm = (m.shape[0] == m.shape[1] and np.all((m == 0) | (m == 1)) and np.all(m.sum(0) == 1) and np.all(m.sum(1) == 1))
        if not perm:
            LOG.violation('C13', 'C13.permutation', f'{kind}/not-a-permutation', 'dense form is not a permutation matrix', expr=dense.describe(op))
        am = np.asarray(op.as_matrix(), dtype=np.float64)
        if am.shape != m.shape or not np.array_equal(am, m):
            LOG.violation('C13', 'C13.permutation', f'{kind}.as_matrix', 'as_matrix differs from the relabelling', expr=dense.describe(op))
        r = op.reduce()
        LOG.count('C13.reduce', f'{kind}:{type(r).__name__}:{"shape-changes" if shape_changes else "shape-kept"}')
        if type(r).__name__ == 'IdentityOperator':
            if shape_changes or not np.array_equal(m, np.eye(len(m))):
                LOG.violation('C13', 'C13.permutation', f'{kind}.reduce/identity', 'reduced to the identity although it is not one', expr=dense.describe(op))
        elif not np.array_equal(dense.matrix(r), m):
            LOG.violation('C13', 'C13.permutation', f'{kind}.reduce/matrix', 'reduce changed the map', expr=dense.describe(op))


def case_moveaxis(rng: Any, ctx: Ctx, index: int) -> None:
    gen.begin_case(rng)
    dt = gen.case_dtype(rng)
    nl = int(gen.pick(rng, [1, 1, 2, 3]))
    ranks = [int(rng.integers(1, 5)) for _ in range(nl)]
    shapes = [tuple(int(v) for v in rng.integers(1, 4, size=r)) for r in ranks]
    s = structure(rng, shapes, dt)
    shapes = [tuple(l.shape) for l in dense.leaves(s)]  # pytree-leaf order (dict keys are sorted)
    ranks = [len(sh) for sh in shapes]
    rmin = min(ranks)
    k = int(rng.integers(1, rmin + 1))
    same_rank = len(set(ranks)) == 1
    if same_rank:
        r = ranks[0]
        src = [int(a) - (r if rng.integers(2) else 0) for a in rng.permutation(r)[:k]]
        dst = [int(a) - (r if rng.integers(2) else 0) for a in rng.permutation(r)[:k]]
        sign = 'mixed'
    else:
        # a specification legal for every leaf: all axes addressed from the same end, within the smallest rank
        if rng.integers(2):
            src = [int(a) for a in rng.permutation(rmin)[:k]]
            dst = [int(a) for a in rng.permutation(rmin)[:k]]
            sign = '+'
        else:
            src = [-int(a) - 1 for a in rng.permutation(rmin)[:k]]
            dst = [-int(a) - 1 for a in rng.permutation(rmin)[:k]]
            sign = '-'
    # legal iff numpy accepts it for every leaf
    try:
        outs = [np.moveaxis(np.zeros(sh), src, dst).shape for sh in shapes]
    except Exception:  # noqa: BLE001
        LOG.skipped('driver', 'gen-error:numpy-rejects')
        return
    form = gen.pick(rng, ['int', 'tuple', 'list']) if k == 1 else gen.pick(rng, ['tuple', 'list'])
    a, b = (src[0], dst[0]) if form == 'int' else ((tuple(src), tuple(dst)) if form == 'tuple' else (list(src), list(dst)))
    changes = any(tuple(o) != tuple(sh) for o, sh in zip(outs, shapes))
    LOG.case_key(f'moveaxis:{form}:{sign}:k{k}:ranks{sorted(ranks)}', changes)
    try:
        op = MoveAxisOperator(a, b, in_structure=s)
        LOG.evaluated('C13.construct')
    except Exception as exc:  # noqa: BLE001
        LOG.evaluated('C13.construct')
        LOG.violation('C13', 'C13.construct', f'MoveAxisOperator.__init__/legal-refused/{type(exc).__name__}', str(exc)[:120], src=src, dst=dst, shapes=shapes)
        return
    LOG.evaluated('C13.out_structure')
    if [tuple(l.shape) for l in dense.leaves(op.out_structure())] != [tuple(o) for o in outs]:
        LOG.violation('C13', 'C13.out_structure', 'MoveAxisOperator.out_structure', 'not numpy.moveaxis shapes', src=src, dst=dst, shapes=shapes)
    xb = apply_monitored(op, rng)
    guarded('C13.roundtrip', lambda: roundtrip_and_matrix(op, xb, 'MoveAxisOperator', changes))
    def pair() -> None:
        # a second move-axis written with the other sign convention (w.r.t. the first leaf's rank): composing and
        # reducing the pair may give the identity only if the pair really is one on every leaf
        r0 = len(shapes[0])
        flip = lambda a: a - r0 if a >= 0 else a + r0  # noqa: E731
        src2, dst2 = tuple(flip(a) for a in op.destination), tuple(flip(a) for a in op.source)
        try:
            for l in dense.leaves(op.out_structure()):
                np.moveaxis(np.zeros(l.shape), src2, dst2)
        except Exception:  # noqa: BLE001
            return
        left = MoveAxisOperator(src2, dst2, in_structure=op.out_structure())
        comp = left @ op
        red = comp.reduce()
        LOG.evaluated('C13.pair')
        LOG.count('C13.pair', type(red).__name__)
        if dense.size_of(s) <= 40:
            m1, m2 = dense.matrix(comp), dense.matrix(red)
            if m1.shape != m2.shape or not np.array_equal(m1, m2) or not dense.struct_eq_loose(red.out_structure(), comp.out_structure()):
                LOG.violation('C13', 'C13.pair', f'MoveAxis@MoveAxis.reduce/{type(red).__name__}',
                              'reducing a pair of move-axis operators changed the map', left=dense.describe(left), right=dense.describe(op))
    guarded('C13.pair', pair)
    inv = op.I
    LOG.evaluated('C13.roundtrip')
    if not (type(inv).__name__ == 'MoveAxisOperator' and dense.struct_eq(inv.in_structure(), op.out_structure())):
        LOG.violation('C13', 'C13.roundtrip', 'MoveAxisOperator.I', 'inverse is not the transposed move-axis', expr=dense.describe(op))
    LOG.sample({'op': dense.describe(op), 'out': [list(o) for o in outs]})


def case_ravel(rng: Any, ctx: Ctx, index: int) -> None:
    gen.begin_case(rng)
    dt = gen.case_dtype(rng)
    nl = int(gen.pick(rng, [1, 1, 2, 3]))
    ranks = [int(rng.integers(1, 5)) for _ in range(nl)]
    shapes = [tuple(int(v) for v in rng.integers(1, 4, size=r)) for r in ranks]
    s = structure(rng, shapes, dt)
    shapes = [tuple(l.shape) for l in dense.leaves(s)]  # pytree-leaf order (dict keys are sorted)
    ranks = [len(sh) for sh in shapes]
    rmin, rmax = min(ranks), max(ranks)
    first = int(rng.integers(-rmin, rmin))
    last = int(rng.integers(-rmin, rmin))
    if rng.integers(8) == 0:
        first, last = 0, -1
    # reference: normalise per leaf; legal iff first <= last for every leaf
    norm = [(first + r if first < 0 else first, last + r if last < 0 else last) for r in ranks]
    legal = all(f <= l for f, l in norm)
    sign = ('-' if first < 0 else '+') + ('-' if last < 0 else '+')
    outs = [sh[:f] + (int(math.prod(sh[f:l + 1])),) + sh[l + 1:] for sh, (f, l) in zip(shapes, norm)] if legal else []
    changes = legal and any(tuple(o) != tuple(sh) for o, sh in zip(outs, shapes))
    LOG.case_key(f'ravel:{sign}:{"legal" if legal else "illegal"}:ranks{sorted(ranks)}', bool(changes))
    try:
        if (first, last) == (0, -1) and rng.integers(2):
            op = RavelOperator(in_structure=s)
        else:
            op = RavelOperator(first, last, in_structure=s)
    except ValueError:
        LOG.evaluated('C13.construct')
        LOG.count('C13.construct', 'ravel:refused')
        if legal:
            LOG.violation('C13', 'C13.construct', f'RavelOperator.__init__/legal-refused/{sign}', 'legal first/last axes refused', first=first, last=last, shapes=shapes)
        return
    except Exception as exc:  # noqa: BLE001
        LOG.evaluated('C13.construct')
        LOG.violation('C13', 'C13.construct', f'RavelOperator.__init__/raises-{type(exc).__name__}/{sign}', str(exc)[:100], first=first, last=last, shapes=shapes)
        return
    LOG.evaluated('C13.construct')
    LOG.count('C13.construct', 'ravel:accepted')
    if not legal:
        LOG.violation('C13', 'C13.construct', f'RavelOperator.__init__/illegal-accepted/{sign}', 'a first axis lying after the last one was accepted',
                      first=first, last=last, shapes=shapes)
        return
    LOG.evaluated('C13.out_structure')
    if [tuple(l.shape) for l in dense.leaves(op.out_structure())] != [tuple(o) for o in outs]:
        LOG.violation('C13', 'C13.out_structure', f'RavelOperator.out_structure/{sign}', 'not the flattening of the axes between first and last',
                      first=first, last=last, shapes=shapes, got=dense.struct_str(op.out_structure()))
    xb = apply_monitored(op, rng)
    guarded('C13.roundtrip', lambda: roundtrip_and_matrix(op, xb, 'RavelOperator', changes))


def case_reshape(rng: Any, ctx: Ctx, index: int) -> None:
    gen.begin_case(rng)
    dt = gen.case_dtype(rng)
    nl = int(gen.pick(rng, [1, 1, 2]))
    shapes = [tuple(int(v) for v in rng.integers(1, 5, size=int(rng.integers(1, 4)))) for _ in range(nl)]
    same_size = nl == 2 and bool(rng.integers(2))
    if same_size:
        # two leaves with the same number of elements and different shapes: one explicit target fits both
        sh0 = shapes[0]
        n_el = int(math.prod(sh0))
        shapes[1] = tuple(int(v) for v in gen.pick(rng, [tuple(reversed(sh0)), (n_el,), (1, n_el), sh0 + (1,)]))
    s = structure(rng, shapes, dt)
    shapes = [tuple(l.shape) for l in dense.leaves(s)]  # pytree-leaf order (dict keys are sorted)
    ranks = [len(sh) for sh in shapes]
    n0 = int(math.prod(shapes[0]))
    form = gen.pick(rng, ['explicit', 'minus1', 'minus1', 'wrong', 'two-minus1', 'negative']) if not same_size else gen.pick(rng, ['explicit', 'explicit', 'minus1'])
    divs = [d for d in range(1, n0 + 1) if n0 % d == 0]
    d = int(gen.pick(rng, divs))
    if form == 'explicit' and same_size:
        new = gen.pick(rng, [shapes[0], shapes[-1], shapes[0], shapes[-1], (n0,)])     # the shape one of the leaves already has
        LOG.count('C13.reshape', 'target=shape-of-first-leaf' if tuple(new) == shapes[0] else 'target=shape-of-last-leaf')
    elif form == 'explicit':
        new = gen.pick(rng, [(n0,), (d, n0 // d), (1, n0), (n0 // d, 1, d)])
    elif form == 'minus1':
        new = gen.pick(rng, [(-1,), (d, -1), (-1, d), (1, -1, 1)])
    elif form == 'wrong':
        new = gen.pick(rng, [(n0 + 1,), (d + 1, -1) if n0 % (d + 1) else (n0 + 2,), (2, n0)])
    elif form == 'two-minus1':
        new = (-1, -1)
    else:
        new = (-2, n0)
    new = tuple(int(v) for v in new)
    # reference: numpy.reshape must accept the shape for every leaf
    try:
        if any(v < -1 for v in new):
            raise ValueError('sizes below -1 are not legal (NumPy happens to treat them like -1)')
        outs = [np.reshape(np.zeros(sh), new).shape for sh in shapes]
        legal = True
    except ValueError:
        outs, legal = [], False
    changes = legal and any(tuple(o) != tuple(sh) for o, sh in zip(outs, shapes))
    LOG.case_key(f'reshape:{form}:{"legal" if legal else "illegal"}:leaves{nl}', bool(changes))
    try:
        op = ReshapeOperator(new, in_structure=s)
    except ValueError:
        LOG.evaluated('C13.construct')
        LOG.count('C13.construct', 'reshape:refused')
        if legal:
            LOG.violation('C13', 'C13.construct', f'ReshapeOperator.__init__/legal-refused/{form}', 'numpy.reshape accepts this shape', new=new, shapes=shapes)
        return
    except Exception as exc:  # noqa: BLE001
        LOG.evaluated('C13.construct')
        LOG.violation('C13', 'C13.construct', f'ReshapeOperator.__init__/raises-{type(exc).__name__}/{form}', str(exc)[:100], new=new, shapes=shapes)
        return
    LOG.evaluated('C13.construct')
    LOG.count('C13.construct', 'reshape:accepted')
    if not legal:
        LOG.violation('C13', 'C13.construct', f'ReshapeOperator.__init__/illegal-accepted/{form}', 'a target shape that cannot apply to some leaf was accepted',
                      new=new, shapes=shapes)
        return
    LOG.evaluated('C13.out_structure')
    if [tuple(l.shape) for l in dense.leaves(op.out_structure())] != [tuple(o) for o in outs]:
        LOG.violation('C13', 'C13.out_structure', f'ReshapeOperator.out_structure/{form}', 'not numpy.reshape shapes', new=new, shapes=shapes)
    xb = apply_monitored(op, rng)
    guarded('C13.roundtrip', lambda: roundtrip_and_matrix(op, xb, 'ReshapeOperator', changes))

    def transposed_reduce() -> None:
        # reduce() of the lazy transpose, alone and after another operator: same map, same structures (identity only if nothing changes)
        from furax._base.core import CompositionOperator, IdentityOperator
        t = op.T
        for label, e in (('T.reduce', t), ('(A@T).reduce', CompositionOperator([IdentityOperator(t.out_structure()), t]))):
            r = e.reduce()
            LOG.evaluated('C13.permutation')
            if not (dense.struct_eq_loose(r.in_structure(), e.in_structure()) and dense.struct_eq_loose(r.out_structure(), e.out_structure())):
                LOG.violation('C13', 'C13.permutation', f'ReshapeOperator.{label}/structures', 'reduce() changed the structures of the transposed reshape',
                              expr=dense.describe(op), result=dense.describe(r))
                return
            if changes and type(r).__name__ == 'IdentityOperator':
                LOG.violation('C13', 'C13.permutation', f'ReshapeOperator.{label}/identity', 'the transpose of a shape-changing reshape was reduced to the identity',
                              expr=dense.describe(op))
                return
        rr = CompositionOperator([t, op]).reduce()
        xr = gen.rand_input(rng, op.in_structure())
        back = rr.mv(xr)
        if any(np.shape(p) != np.shape(q) or not np.array_equal(np.asarray(p), np.asarray(q)) for p, q in zip(jax.tree.leaves(back), jax.tree.leaves(xr))):
            LOG.violation('C13', 'C13.permutation', 'ReshapeOperator.T@op.reduce/not-the-identity-map', f'(op.T @ op).reduce() = {type(rr).__name__} does not return its input',
                          expr=dense.describe(op))
    guarded('C13.permutation', transposed_reduce)

    def other_input() -> None:
        # r1.T @ r2 with r1, r2 flattening two different input shapes of the same size: not an identity
        if nl != 1 or len(shapes[0]) < 2:
            return
        r2 = ReshapeOperator((-1,), in_structure=S(shapes[0][::-1], dt))
        r1 = ReshapeOperator((-1,), in_structure=s) if rng.integers(2) else RavelOperator(in_structure=s)
        for comp in (r1.T @ r2, r2.T @ r1):
            red = comp.reduce()
            LOG.evaluated('C13.pair')
            LOG.count('C13.pair', 'reshape:' + type(red).__name__)
            m1, m2 = dense.matrix(comp), dense.matrix(red)
            if not (np.array_equal(m1, m2) and dense.struct_eq_loose(red.out_structure(), comp.out_structure())
                    and dense.struct_eq_loose(red.in_structure(), comp.in_structure())):
                LOG.violation('C13', 'C13.pair', f'Reshape.T@Reshape.reduce/{type(red).__name__}',
                              'reducing the transpose of one reshape next to another reshape changed the map or its structures', expr=dense.describe(comp))
    guarded('C13.pair', other_input)


def case_weak(rng: Any, ctx: Ctx, index: int) -> None:
    """Structures taken from weakly typed arrays (furax.tree.as_structure of values built from Python scalars): the declared output
    is the structure of what the operator returns, the transpose maps back onto the input structure, and op @ op.T / op.T @ op are
    legal compositions."""
    import jax.numpy as jnp
    import furax
    shape = tuple(int(v) for v in rng.integers(2, 4, size=int(rng.integers(2, 4))))
    x: Any = jnp.full(shape, 1.5)
    if rng.integers(2):
        x = [x, jnp.full(shape + (2,), 0.5)]
    s = furax.tree.as_structure(x)
    kind = gen.pick(rng, ['moveaxis', 'ravel', 'reshape'])
    if kind == 'moveaxis':
        op: Any = MoveAxisOperator(0, -1, in_structure=s) if rng.integers(2) else MoveAxisOperator((0, 1), (1, 0), in_structure=s)
    elif kind == 'ravel':
        op = RavelOperator(0, 1, in_structure=s)
    else:
        op = ReshapeOperator((-1,), in_structure=s) if not isinstance(x, list) else RavelOperator(in_structure=s)
    LOG.case_key(f'weak-structure:{kind}:{"list" if isinstance(x, list) else "leaf"}', True)
    LOG.evaluated('C13.out_structure')
    y = op.mv(x)
    if furax.tree.as_structure(y) != op.out_structure():
        LOG.violation('C13', 'C13.out_structure', f'{type(op).__name__}.out_structure/weakly-typed-input',
                      'the declared output structure is not the structure of op(x) for a weakly typed input',
                      declared=str(op.out_structure())[:160], actual=str(furax.tree.as_structure(y))[:160])
        return
    LOG.evaluated('C13.roundtrip')
    try:
        back = op.T
        if back.out_structure() != op.in_structure() or back.in_structure() != op.out_structure():
            LOG.violation('C13', 'C13.roundtrip', f'{type(op).__name__}.T/structures/weakly-typed-input', 'structures of the transpose are not swapped')
            return
        a, b = op @ back, back @ op
        a.reduce(), b.reduce()
    except ValueError as exc:
        LOG.violation('C13', 'C13.roundtrip', f'{type(op).__name__}.T/composition-refused/weakly-typed-input',
                      f'op @ op.T or op.T @ op refused: {str(exc)[:120]}')


def case(rng: Any, ctx: Ctx, index: int) -> None:
    if index % 25 == 24:
        return case_weak(rng, ctx, index)
    if index % 5 == 4:
        return case_chain(rng, ctx, index // 5)
    (case_moveaxis, case_ravel, case_reshape)[index % 3](rng, ctx, index)


def case_chain(rng: Any, ctx: Ctx, index: int) -> None:
    """Chains of two or three axis operators (ravel after ravel, reshape after ravel, ...) on leaves of rank 3 to 5, axes of
    either sign: the reduced chain relabels exactly as the operators applied one after the other (NumPy reference models)."""
    from .. import refmodels
    from ..core import quiet
    from furax._base.core import CompositionOperator
    gen.begin_case(rng)
    dt = gen.case_dtype(rng)
    nl = int(gen.pick(rng, [1, 1, 2]))
    r0 = int(rng.integers(3, 6))
    shapes = [tuple(int(v) for v in rng.integers(2, 4, size=r0 + (k if rng.integers(2) else 0))) for k in range(nl)]
    s = structure(rng, shapes, dt)
    ops: list[Any] = []
    cur = s
    for _ in range(int(rng.integers(2, 4))):
        rmin = min(len(l.shape) for l in dense.leaves(cur))
        kind = gen.pick(rng, ['ravel', 'ravel', 'ravel', 'reshape', 'moveaxis'])
        op = None
        try:
            if kind == 'ravel' and rmin >= 2:
                neg = bool(rng.integers(2))
                f = int(rng.integers(0, rmin - 1))
                l = int(rng.integers(f + 1, rmin))
                op = RavelOperator(f - rmin, l - rmin, in_structure=cur) if neg else RavelOperator(f, l, in_structure=cur)
            elif kind == 'reshape' and len(dense.leaves(cur)) == 1:
                sh = dense.leaves(cur)[0].shape
                op = ReshapeOperator(gen.pick(rng, [(-1,), (sh[0], -1), (-1, sh[-1])]), in_structure=cur)
            elif kind == 'moveaxis' and rmin >= 2:
                a, b = (int(v) for v in rng.permutation(rmin)[:2])
                op = MoveAxisOperator(a - rmin if rng.integers(2) else a, b - rmin if rng.integers(2) else b, in_structure=cur)
        except ValueError:
            op = None
        if op is None:
            continue
        ops.append(op)
        cur = op.out_structure()
    if len(ops) < 2:
        return
    LOG.case_key('chain:' + '>'.join(type(o).__name__ for o in ops) + f':rank{r0}:leaves{nl}', True)
    LOG.count('C13.chain', '>'.join(type(o).__name__.replace('Operator', '') for o in ops))

    def judge() -> None:
        x = gen.rand_input(rng, s)
        ref: Any = x
        with quiet():
            for o in ops:
                model = refmodels.MODELS[type(o).__name__][1]
                ref = jax.tree.unflatten(jax.tree.structure(o.out_structure()), [np.asarray(a) for a in model(o, ref)])
        e = CompositionOperator(list(reversed(ops)))
        r = e.reduce()
        got = r.mv(x)
        LOG.evaluated('C13.pair')
        gl, rl = jax.tree.leaves(got), jax.tree.leaves(ref)
        if len(gl) != len(rl) or any(np.shape(a) != np.shape(b) or not np.array_equal(np.asarray(a, np.float64), np.asarray(b, np.float64)) for a, b in zip(gl, rl)):
            LOG.violation('C13', 'C13.pair', f'chain.reduce/{type(r).__name__}/' + '>'.join(type(o).__name__.replace('Operator', '') for o in ops),
                          'the reduced chain does not relabel like the operators applied in turn',
                          chain=[dense.describe(o) for o in ops], reduced=dense.describe(r), got=[list(np.shape(a)) for a in gl], expected=[list(np.shape(b)) for b in rl])
    guarded('C13.pair', judge)


def run(ctx: Ctx) -> None:
    enable('mvref')
    drive(ctx, case, 6000, 60000, stream=0, part='axes')
