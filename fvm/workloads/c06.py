"""C06 workload: closed-form inverses of every kind, pseudo-inverses of diagonals with zeros, lazy
(iterative / direct solver) inverses of SPD operators under several solver settings, refusals."""

from __future__ import annotations

from typing import Any

import jax
import jax.numpy as jnp
import lineax as lx
import numpy as np

from furax import Config
from furax._base.blocks import BlockDiagonalOperator
from furax._base.core import HomothetyOperator, IdentityOperator
from furax._base.diagonal import DiagonalOperator

from .. import dense, gen
from ..core import LOG, enable, guarded, quiet
from ..workload import Ctx, drive, generate
from .common import struct_kind


def closed_form(rng: Any, s: Any, depth: int = 0) -> Any:
    """Random operator with a closed-form inverse on structure s."""
    kinds = ['homothety', 'diagonal', 'identity']
    if gen.is_stokes(s):
        kinds += ['qurot', 'qurot_T'] * 2
    if gen.children(s) is not None and depth < 2:
        kinds += ['blockdiag'] * 3
    if gen.common_rank(s) >= 2:
        kinds.append('moveaxis_sq')
    kind = gen.pick(rng, kinds)
    if kind == 'homothety' and rng.integers(3) == 0:
        # integer-valued scalars (what `2 * op` stores): the reciprocal is not an integer
        k = int(gen.pick(rng, [2, 3, -2, 4, 5, -7]))
        LOG.count('C06.blocks', 'integer-scalar')
        return gen.pick(rng, [lambda: (k * IdentityOperator(s)).reduce(), lambda: HomothetyOperator(jnp.array(k), s),
                              lambda: HomothetyOperator(np.int64(k), s), lambda: HomothetyOperator(k, s)])()
    if kind == 'homothety':
        return gen.a_homothety(rng, s)
    if kind == 'identity':
        return IdentityOperator(s)
    if kind == 'diagonal':
        d = gen.a_diagonal(rng, s)
        if d is not None and rng.integers(3) == 0:
            # entries spanning many orders of magnitude (every non-zero entry must still be inverted)
            mag = 10.0 ** rng.integers(-5, 6, size=d._diagonal.shape)
            d = DiagonalOperator(jnp.asarray(np.asarray(d._diagonal, np.float64) * mag, dtype=d._diagonal.dtype),
                                 axis_destination=d.axis_destination, in_structure=s)
        return d if d is not None else gen.a_homothety(rng, s)
    if kind == 'qurot':
        return gen.a_qurot(rng, s)
    if kind == 'qurot_T':
        return gen.a_qurot(rng, s).T
    if kind == 'moveaxis_sq':
        m = gen.a_moveaxis(rng, s)
        return m if m is not None else gen.a_homothety(rng, s)
    rebuild, cs = gen.children(s)
    return BlockDiagonalOperator(rebuild([_block(rng, c, depth + 1) for c in cs]))


def _block(rng: Any, c: Any, depth: int) -> Any:
    if not gen.is_sds(c) and not gen.is_stokes(c) and rng.integers(2):
        rebuild, cs = gen.children(c)
        return rebuild([_block(rng, x, depth + 1) for x in cs])
    if gen.is_sds(c) and rng.integers(4) == 0:
        # a block whose inverse goes through the solver (SPD), next to closed-form blocks that need not be symmetric
        LOG.count('C06.blocks', 'solver-inverted-block')
        return gen.spd(rng, c)
    op = closed_form(rng, c, depth)
    if type(op).__name__ == 'MoveAxisOperator' and not dense.struct_eq(op.in_structure(), op.out_structure()):
        return gen.a_homothety(rng, c)
    return op


def case_permutation(rng: Any, ctx: Ctx, index: int) -> None:
    """Axis permutations that are not square (the shapes change): the inverse is still exact, A.I(A(x)) = x and A(A.I(y)) = y
    element by element, on pytrees whose leaves have different ranks and with axes of either sign."""
    gen.begin_case(rng)
    u = gen.universe(rng)
    dt = gen.case_dtype(rng)
    mixed = [(gen.S((2, 3), dt), gen.S((4, 2, 3), dt)), [gen.S((2, 3, 4), dt), gen.S((3, 2), dt)],
             {'b': gen.S((3, 2), dt), 'a': gen.S((2, 2, 3, 2), dt)}]          # leaves of different ranks, all >= 2
    s = gen.pick(rng, mixed) if rng.integers(2) else u[gen.pick(rng, ['m23', 't213', 't223'])]
    op = generate(lambda: gen.a_moveaxis(rng, s))
    if op is None:
        return
    inv = op.I                                # monitored
    LOG.case_key(f'closed:permutation:{dense.skeleton(op)}:{struct_kind(s)}', True)

    def j() -> None:
        x = gen.rand_input(rng, op.in_structure())
        y = gen.rand_input(rng, op.out_structure())
        LOG.evaluated('C06.roundtrip')
        for name, a, b in (('A.I(A(x))', inv.mv(op.mv(x)), x), ('A(A.I(y))', op.mv(inv.mv(y)), y)):
            la, lb = jax.tree.leaves(a), jax.tree.leaves(b)
            if len(la) != len(lb) or any(p.shape != q.shape or not np.array_equal(np.asarray(p), np.asarray(q)) for p, q in zip(la, lb)):
                LOG.violation('C06', 'C06.roundtrip', 'MoveAxisOperator.I/roundtrip', f'{name} is not the identity relabelling',
                              expr=dense.describe(op), got=[list(p.shape) for p in la], expected=[list(q.shape) for q in lb])
                return
    guarded('C06.roundtrip', j)


def case_closed(rng: Any, ctx: Ctx, index: int) -> None:
    if index % 10 == 9:
        return case_permutation(rng, ctx, index)
    gen.begin_case(rng)
    s = gen.rand_struct(rng)
    op = generate(lambda: closed_form(rng, s))
    square = dense.struct_eq(op.in_structure(), op.out_structure())
    try:
        inv = op.I                        # monitored
    except ValueError:
        LOG.count('C06.driver', 'refused')
        return
    LOG.case_key(f'closed:{dense.skeleton(op)}:{struct_kind(s)}', True)
    with quiet():
        m = dense.matrix(op)
        LOG.cases[f'closed:{dense.skeleton(op)}:{struct_kind(s)}'] = not np.allclose(np.abs(m), np.eye(len(m)))
    try:
        back = inv.I                      # monitored: A.I.I denotes A
    except ValueError:
        LOG.count('C06.driver', 'inverse-of-inverse-refused')
        back = None

    def roundtrip() -> None:
        x = gen.rand_input(rng, s)
        y = inv.mv(op.mv(x))
        z = op.mv(inv.mv(x))
        tol = dense.tol_for(op, inv) * 50 * max(1.0, np.linalg.cond(m))
        LOG.evaluated('C06.roundtrip')
        for name, got in (('A.I(A(x))', y), ('A(A.I(x))', z)):
            ok, err = dense.close(dense.flatten_np(x), dense.flatten_np(got), tol)
            if not ok:
                LOG.violation('C06', 'C06.roundtrip', f'{type(op).__name__}.I/roundtrip', f'{name} != x (rel err {err:.3g})',
                              expr=dense.describe(op))
        if back is not None:
            ok, err = dense.close(m, dense.matrix(back), dense.tol_for(op, back) * max(1.0, np.linalg.cond(m)))
            if not ok:
                LOG.violation('C06', 'C06.roundtrip', f'{type(op).__name__}.I.I/matrix', f'A.I.I differs from A (rel err {err:.3g})',
                              expr=dense.describe(op))

    if square and np.linalg.matrix_rank(m) == len(m) and np.linalg.cond(m) < 1e4:
        guarded('C06.roundtrip', roundtrip)
    LOG.sample({'kind': 'closed-form', 'expr': dense.describe(op), 'inverse': dense.describe(inv)})


def case_pinv(rng: Any, ctx: Ctx, index: int) -> None:
    """Diagonal operators with zero entries: Moore-Penrose pseudo-inverse, no NaN/Inf."""
    gen.begin_case(rng)
    s = gen.rand_struct(rng)
    d = generate(lambda: gen.a_diagonal(rng, s))
    if d is None:
        return
    vals = np.array(d._diagonal)
    mask = rng.random(vals.shape) < 0.4
    if not mask.any():
        mask.flat[int(rng.integers(mask.size))] = True
    if rng.integers(2):
        vals = vals * 10.0 ** rng.integers(-5, 6, size=vals.shape)
    vals = np.where(mask, 0.0, vals)
    d0 = DiagonalOperator(jnp.asarray(vals, dtype=d._diagonal.dtype), axis_destination=d.axis_destination, in_structure=s)
    inv = d0.I                            # monitored (singular branch: pseudo-inverse + finiteness)
    LOG.case_key(f'pinv:{d0._diagonal.ndim}d@{d0.axis_destination}:{struct_kind(s)}', True)

    def finite() -> None:
        x = gen.rand_input(rng, s)
        y = dense.flatten_np(inv.mv(x))
        LOG.evaluated('C06.pinv-finite')
        if not np.all(np.isfinite(y)):
            LOG.violation('C06', 'C06.pinv-finite', 'DiagonalInverseOperator.mv/non-finite', 'NaN/Inf from a diagonal with zeros',
                          expr=dense.describe(d0))
        with jax.debug_nans(False):
            g = dense.flatten_np(jax.jit(lambda v: inv.mv(v))(x))
        if not np.array_equal(g, y):
            LOG.violation('C06', 'C06.pinv-finite', 'DiagonalInverseOperator.mv/jit-differs', 'jit result differs', expr=dense.describe(d0))

    guarded('C06.pinv-finite', finite)


SOLVERS = {
    'CG-1e-3': lambda: lx.CG(rtol=1e-3, atol=1e-3, max_steps=500),
    'CG-1e-5': lambda: lx.CG(rtol=1e-5, atol=1e-5, max_steps=500),
    'CG-default': None,
    'CG-unbounded': lambda: lx.CG(rtol=1e-6, atol=1e-6),          # max_steps=None, lineax's own default
    'BiCGStab': lambda: lx.BiCGStab(rtol=1e-5, atol=1e-5, max_steps=500),
    'GMRES': lambda: lx.GMRES(rtol=1e-5, atol=1e-5, max_steps=500),
    'NormalCG': lambda: lx.NormalCG(rtol=1e-5, atol=1e-5, max_steps=1000),
    'Cholesky': lambda: lx.Cholesky(),
    'LU': lambda: lx.LU(),
}
TOLS = {'CG-unbounded': 1e-6, 'CG-1e-3': 1e-3, 'CG-1e-5': 1e-5, 'CG-default': 1e-6, 'BiCGStab': 1e-5, 'GMRES': 1e-5, 'NormalCG': 1e-5,
        'Cholesky': 1e-6, 'LU': 1e-6}


def spd_operator(rng: Any, s: Any, blockdiag: bool = True) -> Any:
    if gen.is_sds(s) and len(s.shape) == 1 and s.shape[0] >= 3 and rng.integers(2):
        # a dense symmetric matrix with a prescribed, geometrically spaced spectrum (condition number 5..50): iterative
        # solvers need about sqrt(cond) log(1/tol) iterations here, more than the size of the system
        from furax._base.dense import DenseBlockDiagonalOperator
        n = s.shape[0]
        u, _ = np.linalg.qr(rng.normal(size=(n, n)))
        ev = np.geomspace(1.0, float(rng.uniform(5, 50)), n)
        m = (u * ev) @ u.T
        return DenseBlockDiagonalOperator(jnp.asarray((m + m.T) / 2, dtype=s.dtype), s, 'ij,j->i')
    if gen.is_sds(s) and len(s.shape) == 1 and s.shape[0] >= 2 and rng.integers(3) == 0:
        # the normal operator P.T @ P + I of a selection with repeated and negative (counted from the end) indices
        from furax._base.indices import IndexOperator
        n = s.shape[0]
        arr = rng.integers(-n, n, size=int(rng.integers(n, 2 * n + 1)))
        arr[0] = -1
        idx = (jnp.asarray(arr, dtype=jnp.int32),)
        p = IndexOperator(idx, in_structure=s, out_structure=gen.index_out_structure(s, idx))
        LOG.count('C06.blocks', 'normal-operator-of-a-selection')
        return p.T @ p + IdentityOperator(s)
    if gen.is_sds(s):
        return gen.spd(rng, s)
    c = gen.children(s)
    if blockdiag and c is not None and all(gen.is_sds(x) for x in c[1]) and rng.integers(2):
        rebuild, cs = c
        return BlockDiagonalOperator(rebuild([gen.spd(rng, x) for x in cs]))
    t = gen.S((2,), gen.data_dtype(s))
    cn = gen.connector(rng, s, t)
    h = HomothetyOperator(jnp.asarray(float(rng.integers(2, 6)), dtype=gen.data_dtype(s)), s)
    if cn is None:
        return h
    return cn.T @ cn + h


def case_lazy(rng: Any, ctx: Ctx, index: int) -> None:
    gen.begin_case(rng)
    s = gen.rand_struct(rng)
    if dense.size_of(s) > 12 or len({np.dtype(l.dtype) for l in dense.leaves(s)}) > 1:
        # lineax solvers refuse pytrees of mixed dtypes (DESIGN §7.2): uniform-dtype structures only
        s = gen.S((int(rng.integers(2, 13)),), gen.case_dtype(rng))
    name = gen.pick(rng, sorted(SOLVERS))
    if name in ('BiCGStab', 'GMRES') and any(np.dtype(l.dtype).itemsize < 8 for l in dense.leaves(s)):
        # the non-symmetric Krylov solvers of lineax stagnate in float32 on SPD systems of condition number ~25 (residual 1e-3
        # relative with rtol=1e-5, throw=False): a property of the dependency in single precision; they are run on float64 data only
        name = 'CG-1e-5'
    # lineax's BiCGStab returns NaN for an exactly zero right-hand side (a dependency behaviour, see
    # DESIGN §7): block-diagonal operands, whose blocks see zero sub-vectors, are not paired with it
    a = generate(lambda: spd_operator(rng, s, blockdiag=name != 'BiCGStab'))
    scaling = gen.pick(rng, ['none', 'none', 'k*A', 'A*k', 'A/k', 'A/int'])
    if scaling == 'k*A':
        a = 2.5 * a              # Python scalars: weakly typed in JAX
    elif scaling == 'A*k':
        a = a * 0.75
    elif scaling == 'A/k':
        a = a / 3.0
    elif scaling == 'A/int':
        a = a / 2
    LOG.count('C06.lazy.scaling', scaling)
    if not ctx.x64 and name in ('CG-default', 'CG-1e-5', 'BiCGStab', 'GMRES', 'NormalCG') and False:
        return
    with quiet():
        m = dense.matrix(a)
    cond = np.linalg.cond(m)
    if cond > 50 or not np.allclose(m, m.T):
        LOG.count('C06.driver', 'not-well-conditioned-spd')
        return
    if name == 'BiCGStab' and len(np.unique(np.round(np.linalg.eigvalsh(m), 5))) < len(m):
        # lineax's BiCGStab breaks down (NaN) when it converges in fewer steps than expected: repeated eigenvalues
        # (a multiple of the identity: every right-hand side is an eigenvector) are not paired with it (DESIGN §7.2)
        LOG.count('C06.driver', 'bicgstab-repeated-eigenvalues')
        return
    f32 = any(np.dtype(l.dtype).itemsize < 8 for l in dense.leaves(s))
    tol = max(TOLS[name], 3e-6 if f32 else 0)
    mk = SOLVERS[name]
    cb = lambda sol: None  # noqa: E731
    preview = None
    if rng.integers(3) == 0:
        # history: a loose "preview" inverse of the same operand object is taken first and kept alive; the inverse taken
        # afterwards under the real settings must follow the real settings
        with quiet(), Config(solver=lx.CG(rtol=0.5, atol=0.5, max_steps=1), solver_callback=cb):
            preview = a.I
        LOG.count('C06.lazy.history', 'preview-inverse-first')
    if mk is None:
        with Config(solver_callback=cb):
            inv = a.I                     # monitored (lazy branch)
    else:
        with Config(solver=mk(), solver_callback=cb):
            inv = a.I
    LOG.count('C06.lazy.solver', name)
    del preview
    LOG.case_key(f'lazy:{name}:{dense.skeleton(a)}:{struct_kind(s)}', True)

    def solve() -> None:
        y = gen.rand_input(rng, s)
        z = jax.jit(lambda v: inv.mv(v))(y)
        yn = dense.flatten_np(y)
        res = m @ dense.flatten_np(z) - yn
        ref = np.linalg.solve(m, yn)
        bound = 10 * (tol + tol * np.linalg.norm(yn)) * max(1.0, cond)
        # the solvers stop on the residual: no condition-number factor there (float32 round-off floor: 2e-6 cond |y|)
        rbound = 10 * (tol + tol * np.linalg.norm(yn)) + (2e-6 * cond * np.linalg.norm(yn) if f32 else 0.0)
        LOG.evaluated('C06.lazy-solve')
        if not np.all(np.isfinite(res)) or np.linalg.norm(res) > rbound:
            LOG.violation('C06', 'C06.lazy-solve', f'InverseOperator.mv/residual/{name.split("-")[0]}',
                          f'|A z - y| = {np.linalg.norm(res):.3g} > {rbound:.3g} (solver {name}, cond {cond:.3g})',
                          expr=dense.describe(a))
        if np.linalg.norm(dense.flatten_np(z) - ref) > bound:
            LOG.violation('C06', 'C06.lazy-solve', f'InverseOperator.mv/solution/{name.split("-")[0]}',
                          f'|z - solve(A, y)| = {np.linalg.norm(dense.flatten_np(z) - ref):.3g} > {bound:.3g}',
                          expr=dense.describe(a))
        mi = np.asarray(inv.as_matrix(), dtype=np.float64)
        ok, err = dense.close(mi, np.linalg.inv(m), 1e-3 if f32 else 1e-8)
        LOG.evaluated('C06.lazy-as_matrix')
        if not ok:
            LOG.violation('C06', 'C06.lazy-as_matrix', 'AbstractLazyInverseOperator.as_matrix/matrix',
                          f'as_matrix of the inverse is not the matrix inverse (rel err {err:.3g})', expr=dense.describe(a))

    try:
        jax.jit(lambda v: inv.mv(v))(gen.rand_input(rng, s))
    except Exception as exc:  # noqa: BLE001 - an SPD operand whose lazy inverse cannot be applied at all
        LOG.evaluated('C06.lazy-solve')
        LOG.violation('C06', 'C06.lazy-solve', f'InverseOperator.mv/raises-{type(exc).__name__}/scaling={scaling}/x64={ctx.x64}',
                      f'{str(exc)[:120]} (solver {name})', expr=dense.describe(a))
        return
    guarded('C06.lazy-solve', solve)
    LOG.sample({'kind': 'lazy', 'solver': name, 'expr': dense.describe(a), 'cond': float(cond)})


def case_refuse(rng: Any, ctx: Ctx, index: int) -> None:
    """Non-square operators must be refused."""
    gen.begin_case(rng)
    s = gen.rand_struct(rng)
    for _ in range(6):
        op = generate(lambda: gen.atom(rng, s, exclude=('identity', 'homothety', 'hwp', 'qurot', 'toeplitz', 'toast', 'pack')))
        if not dense.struct_eq(op.in_structure(), op.out_structure()):
            break
    else:
        return
    if type(op).__name__ == 'MoveAxisOperator':
        return  # axis permutations have a closed-form inverse even when the structures differ
    LOG.case_key(f'refuse:{type(op).__name__}:{struct_kind(s)}', True)
    try:
        op.I                              # monitored: must raise ValueError
    except ValueError:
        pass
    if rng.integers(2):
        c = gen.children(s)
        if c is not None:
            rebuild, cs = c
            bd = BlockDiagonalOperator(rebuild([gen.atom(rng, x) for x in cs]))
            try:
                bd.I
            except ValueError:
                pass


def run(ctx: Ctx) -> None:
    enable('inverse')
    drive(ctx, case_closed, 1200, 12000, stream=0, part='closed')
    drive(ctx, case_pinv, 300, 3000, stream=1, part='pinv')
    drive(ctx, case_refuse, 300, 3000, stream=2, part='refuse')
    drive(ctx, case_lazy, 400, 4000, stream=3, part='lazy')
