"""C01 workload: random expression trees and pattern chains reduced under the reduce/rule monitors."""

from __future__ import annotations

from typing import Any

from .. import dense, gen, patterns
from ..core import LOG, enable, guarded, quiet
from ..workload import Ctx, drive, generate


def _fired() -> int:
    return sum(LOG.hist['C01.rule.fired'].values()) + sum(
        v for k, v in LOG.hist['C01.reduce.kind'].items() if k == 'rewritten'
    )


def reduce_all(e: Any, what: str) -> None:
    before = _fired()
    m0 = None
    if dense.size_of(e.in_structure()) * dense.size_of(e.out_structure()) <= 400:
        try:
            with quiet():
                m0 = dense.matrix(e)
        except Exception:  # noqa: BLE001
            m0 = None
    try:
        r = e.reduce()
    except Exception:  # noqa: BLE001 - recorded by the monitor as a violation; keep going
        LOG.count('C01.driver', 'reduce-raised')
        return
    nontrivial = _fired() > before
    if m0 is not None:
        # reduce() must leave its operand alone: the unreduced expression still denotes the same map afterwards
        def unchanged() -> None:
            m1 = dense.matrix(e)
            LOG.evaluated('C01.operand-unchanged')
            ok, err = dense.close(m0, m1, dense.tol_for(e))
            if not ok:
                LOG.violation('C01', 'C01.operand-unchanged', 'reduce/modifies-its-operand',
                              f'the unreduced expression denotes another map after reduce() (rel err {err:.3g})', expr=dense.describe(e))
        guarded('C01.operand-unchanged', unchanged)
    LOG.case_key(f'{what}:{dense.skeleton(e)}', nontrivial)
    LOG.sample({'expr': dense.describe(e), 'reduced': dense.describe(r), 'rewrites': _fired() - before})
    try:
        r.reduce()  # reducing again must also preserve the map (idempotence is not demanded)
    except Exception:  # noqa: BLE001
        LOG.count('C01.driver', 'second-reduce-raised')


def case_random(rng: Any, ctx: Ctx, index: int) -> None:
    gen.begin_case(rng)
    s = gen.rand_struct(rng)
    b = gen.Budget(depth=5 if ctx.thorough else 3, chain=8 if ctx.thorough else 4)
    e = generate(lambda: gen.expr(rng, s, b))
    bad = gen.well_typed(e)
    if bad or not dense.struct_eq(e.in_structure(), s):
        LOG.skipped('driver', f'gen-error:ill-typed:{bad}')
        return
    reduce_all(e, 'expr')
    names = dense.class_names(e)
    if 'InverseOperator' not in names:
        et = generate(lambda: e.T)
        reduce_all(et, 'T')
    if dense.struct_eq(e.in_structure(), e.out_structure()) and rng.integers(3) == 0:
        kinds = names - {'CompositionOperator'}
        if kinds <= {'DiagonalOperator', 'HomothetyOperator', 'IdentityOperator', 'BlockDiagonalOperator',
                     'QURotationOperator', 'QURotationTransposeOperator', 'DiagonalInverseOperator',
                     'HWPOperator'}:
            ei = generate(lambda: e.I)
            reduce_all(ei, 'I')


def case_pattern(rng: Any, ctx: Ctx, index: int) -> None:
    gen.begin_case(rng)
    names = sorted(patterns.PATTERNS)
    # round-robin slots: the four block-operator pairs first, then every other pattern family
    rr = ([('blocks', f) for f in range(4)] + [(n, None) for n in names if n not in ('blocks', 'nearmiss')]
          + [('nearmiss', f) for f in range(patterns.N_NEARMISS)])      # documented patterns first: every rule fires early in every shard
    k = 1 + int(rng.integers(3) == 0) + int(rng.integers(6) == 0)
    bare = bool(rng.integers(4) == 0)        # the pattern alone: chains whose operands ALL cancel (the rule must synthesise the identity)
    if bare:
        k = 1
    maxctx = 14 if ctx.thorough else 6

    def build() -> Any:
        segs, tags = [], []
        for j in range(k):
            # the first pattern is chosen round-robin so that every rule is reached early in every shard
            slot = (index // max(1, ctx.nshards)) % len(rr)
            name, form = rr[slot] if j == 0 else (names[int(rng.integers(len(names)))], None)
            if name == 'blocks' and form is not None:
                tag, seg = patterns.p_blocks(rng, form)
            elif name == 'nearmiss' and form is not None:
                tag, seg = patterns.p_nearmiss(rng, form)
            else:
                tag, seg = patterns.PATTERNS[name](rng)
            segs.append(seg)
            tags.append(tag)
        n_left = int(rng.integers(0, maxctx // 2 + 1)) * (not bare)
        n_right = int(rng.integers(0, maxctx // 2 + 1)) * (not bare)
        n_mid = int(rng.integers(0, 3)) * (not bare)
        out = patterns.embed(rng, segs, n_left, n_mid, n_right, scalars=int(rng.integers(0, 4)) * (not bare))
        return out, tags

    (out, tags) = generate(build)
    if out is None:
        LOG.skipped('driver', 'gen-error:no-connector')
        return
    ops, _ = out
    if len(ops) < 2:
        return
    if dense.size_of(ops[0].out_structure()) > 48 or any(
        dense.size_of(o.out_structure()) > 64 for o in ops
    ):
        LOG.count('C01.driver', 'pattern-too-large')
        return
    from furax._base.core import CompositionOperator

    e = generate(lambda: gen.combine(rng, ops) if rng.integers(2) else CompositionOperator(ops))
    bad = gen.well_typed(e)
    if bad:
        LOG.skipped('driver', f'gen-error:ill-typed:{bad}')
        return
    for t in tags:
        LOG.count('C01.pattern', t)
    reduce_all(e, 'pattern:' + '+'.join(t.split('/')[0] for t in tags))


def _silent(solution: Any) -> None:
    return None


def case_config(rng: Any, ctx: Ctx, index: int) -> None:
    """History across solver configurations: a solver-based inverse built inside one configuration block and reduced (alone
    or inside a larger expression) outside of it must still denote the same map."""
    import jax
    import jax.numpy as jnp
    import lineax as lx
    import numpy as np
    from furax import Config
    from furax._base.blocks import BlockDiagonalOperator
    from furax._base.core import CompositionOperator
    from furax._base.dense import DenseBlockDiagonalOperator
    from furax._base.diagonal import DiagonalOperator

    gen.begin_case(rng)
    dt = gen.case_dtype(rng)
    n = int(rng.integers(2, 6))
    s = gen.S((n,), dt)
    m = rng.normal(size=(n, n)) + 3 * np.eye(n)                       # well-conditioned, NOT symmetric
    a = DenseBlockDiagonalOperator(jnp.asarray(m, dtype=dt), s, 'ij,j->i')
    d = DiagonalOperator(jnp.asarray(rng.uniform(1, 2, n), dtype=dt), in_structure=s)
    composite = gen.pick(rng, [lambda: a @ d, lambda: d @ a, lambda: a + d, lambda: CompositionOperator([d, a, d])])()
    which = gen.pick(rng, ['LU', 'NormalCG'])
    solver = lx.LU() if which == 'LU' else lx.NormalCG(rtol=1e-7, atol=1e-7, max_steps=2000)
    with Config(solver=solver, solver_callback=_silent):      # (the default callback reads iteration counts direct solvers do not report)
        inv = composite.I
        built_inside = gen.pick(rng, [lambda: inv, lambda: inv @ d, lambda: d @ inv, lambda: inv + d,
                                      lambda: BlockDiagonalOperator([inv, d])])()
    LOG.count('C01.config', which)
    reduce_all(built_inside, 'config-crossing')                      # reduced under the ambient (default) configuration
    with Config(solver=lx.CG(rtol=1e-2, atol=1e-2, max_steps=1), solver_callback=_silent):
        reduce_all(built_inside, 'config-crossing')                  # ... and under a third one


def run(ctx: Ctx) -> None:
    enable('reduce')
    drive(ctx, case_config, 100, 1000, stream=2, part='config')
    drive(ctx, case_random, 1200, 12000, stream=0, part='random')
    drive(ctx, case_pattern, 1200, 12000, stream=1, part='pattern')
