"""Helpers shared by the class-level workloads."""

from __future__ import annotations

from typing import Any

import numpy as np

from .. import dense, gen
from ..core import LOG
from ..workload import Ctx, GenError, generate


def rand_operator(rng: Any, ctx: Ctx, *, atoms: float = 0.4, lazy_inverse: bool = True, index: int | None = None) -> tuple[Any, Any]:
    """(input structure, well-typed operator): a single atom or a random expression."""
    if index is not None:
        # the first cases of every shard go through one operator of every class in turn
        slot = index // max(1, ctx.nshards)
        if slot < len(gen.CLASS_RECIPES) and (lazy_inverse or gen.CLASS_RECIPES[slot] != 'InverseOperator'):
            op = generate(lambda: gen.operator_of_class(rng, gen.CLASS_RECIPES[slot]))
            if op is not None and gen.well_typed(op) is None:
                return op.in_structure(), op
    gen.begin_case(rng)
    s = gen.rand_struct(rng)
    if rng.random() < atoms:
        op = generate(lambda: gen.atom(rng, s))
    else:
        b = gen.Budget(depth=4 if ctx.thorough else 3, chain=6 if ctx.thorough else 4,
                       lazy_inverse=lazy_inverse)
        op = generate(lambda: gen.expr(rng, s, b))
    bad = gen.well_typed(op)
    if bad or not dense.struct_eq(op.in_structure(), s):
        raise GenError(f'ill-typed:{bad}')
    return s, op


def struct_kind(s: Any) -> str:
    if gen.is_sds(s):
        return f'leaf{len(s.shape)}d'
    return type(s).__name__ + str(len(dense.leaves(s)))


def param_form(op: Any) -> str:
    name = type(op).__name__
    if name == 'IndexOperator':
        return ','.join(dense._idx_str(i).split('[')[0] for i in op.indices)
    if name in ('DiagonalOperator', 'BroadcastDiagonalOperator'):
        return f'{op._diagonal.ndim}d@{op.axis_destination}'
    if name == 'DenseBlockDiagonalOperator':
        return op.subscripts
    if name == 'SymmetricBandToeplitzOperator':
        return f'{op.method}/{op.band_values.ndim}d'
    if name == 'MoveAxisOperator':
        return f'{len(op.source)}ax'
    if name == 'RavelOperator':
        return f'{np.sign(op.first_axis)}{np.sign(op.last_axis)}'
    if name == 'ReshapeOperator':
        return f'{len(op.shape)}d{"-1" if -1 in op.shape else ""}'
    if name == 'QURotationOperator':
        return f'angles{np.ndim(op.angles)}d'
    return ''


def case_key(prefix: str, op: Any) -> str:
    return f'{prefix}:{dense.skeleton(op)}:{param_form(op)}:{struct_kind(op.in_structure())}'


def nontrivial_matrix(m: np.ndarray) -> bool:
    """Not a multiple of the identity."""
    if m.shape[0] != m.shape[1] or m.size == 0:
        return m.size > 0
    return not np.allclose(m, m[0, 0] * np.eye(m.shape[0]))
