"""C04 workload: as_matrix (override and generic) under the as_matrix monitor; linearity probes."""

from __future__ import annotations

from typing import Any

import jax
import numpy as np

from furax._base.core import AbstractLinearOperator

from .. import dense, gen
from ..core import LOG, OracleError, enable, guarded, quiet
from ..workload import Ctx, drive
from .common import case_key, nontrivial_matrix, rand_operator


def linearity(op: Any, rng: Any) -> None:
    mon = 'C04.linearity'
    s = op.in_structure()
    x, y = gen.rand_input(rng, s), gen.rand_input(rng, s)
    a, b = float(rng.integers(-8, 9)) / 4, float(rng.integers(-8, 9)) / 4
    comb = jax.tree.map(lambda u, v: (a * u + b * v).astype(u.dtype), x, y)
    lhs = dense.flatten_np(op.mv(comb))
    rhs = a * dense.flatten_np(op.mv(x)) + b * dense.flatten_np(op.mv(y))
    zero = dense.flatten_np(op.mv(jax.tree.map(lambda u: 0 * u, x)))
    tol = dense.tol_for(op) * 20
    LOG.evaluated(mon)
    ok, err = dense.close(lhs, rhs, tol)
    if not ok:
        LOG.violation('C04', mon, f'{type(op).__name__}.mv/not-linear', f'op(ax+by) != a op(x)+b op(y) (rel err {err:.3g})',
                      expr=dense.describe(op))
    if not np.all(zero == 0):
        LOG.violation('C04', mon, f'{type(op).__name__}.mv/op(0)!=0', f'op(0) = {zero[:8]}', expr=dense.describe(op))
    if not (np.all(np.isfinite(lhs)) and np.all(np.isfinite(rhs))):
        LOG.violation('C04', mon, f'{type(op).__name__}.mv/non-finite', 'finite input gave NaN/Inf', expr=dense.describe(op))


def batch_dense(rng: Any) -> tuple[Any, Any]:
    import jax.numpy as jnp
    from furax._base.dense import DenseBlockDiagonalOperator
    gen.begin_case(rng)
    dt = gen.case_dtype(rng)
    b, n = int(rng.integers(2, 4)), int(rng.integers(2, 4))
    subs = gen.pick(rng, ['bij,bj->bi', 'kij,kj->ki', 'bji,bj->bi', 'inm,in->im'])
    s = gen.S((b, n), dt)
    op = DenseBlockDiagonalOperator(gen.dy(rng, (b, n, n), dt), s, subs)
    LOG.count('C04.batch-dense', subs)
    return s, (op.T if rng.integers(2) else op)


def unit_leaf_operator(rng: Any) -> tuple[Any, Any]:
    """Operators on pytrees that hold a leaf of shape (1,) or () BEFORE other leaves (a gain next to a timestream), whose dense
    form comes from the generic column-by-column builder."""
    import jax.numpy as jnp
    from furax._base.core import HomothetyOperator
    from furax._base.diagonal import DiagonalOperator
    gen.begin_case(rng)
    dt = gen.case_dtype(rng)
    unit = gen.S(gen.pick(rng, [(1,), (1,), (), (1, 1)]), dt)
    s = gen.pick(rng, [{'a': unit, 'b': gen.S((3,), dt)}, [unit, gen.S((2, 2), dt)], (unit, gen.S((3,), dt), unit)])
    d = jax.tree.map(lambda l: gen.dy(rng, l.shape, dt, nonzero=True), s)
    scale = jax.tree.map(lambda l, v: v, s, d)
    from furax._base.blocks import BlockDiagonalOperator
    blocks = jax.tree.map(lambda l, v: (DiagonalOperator(v, in_structure=l) if l.shape else HomothetyOperator(v, l)), s, scale)
    op = HomothetyOperator(2.0, s) @ BlockDiagonalOperator(blocks)       # a composition: generic as_matrix
    LOG.count('C04.unit-leaf', str(type(s).__name__))
    return s, op


def case(rng: Any, ctx: Ctx, index: int) -> None:
    if index % 15 == 13:
        s, op = unit_leaf_operator(rng)
    elif index % 15 == 14:
        s, op = batch_dense(rng)
    else:
        s, op = rand_operator(rng, ctx, atoms=0.5, index=index)
    with quiet():
        try:
            m = dense.matrix(op)
            LOG.case_key(case_key('M', op), nontrivial_matrix(m))
        except OracleError:
            pass
    try:
        mat = op.as_matrix()                          # monitored (specialised override if any)
    except Exception:  # noqa: BLE001 - judged by the monitor
        LOG.count('C04.driver', 'as_matrix-raised')
        mat = None
    try:
        gmat = AbstractLinearOperator.as_matrix(op)   # monitored (generic implementation)
    except Exception:  # noqa: BLE001
        LOG.count('C04.driver', 'generic-as_matrix-raised')
    if mat is not None:
        def matvec() -> None:
            x = gen.rand_input(rng, op.in_structure())
            y = dense.flatten_np(op.mv(x))
            y2 = np.asarray(mat, dtype=np.float64) @ dense.flatten_np(x)
            LOG.evaluated('C04.matvec')
            ok, err = dense.close(y, y2, dense.tol_for(op) * 20)
            if not ok:
                LOG.violation('C04', 'C04.matvec', f'{type(op).__name__}/as_matrix@x!=op(x)', f'rel err {err:.3g}',
                              expr=dense.describe(op))
        guarded('C04.matvec', matvec)
    guarded('C04.linearity', lambda: linearity(op, rng))
    LOG.sample({'expr': dense.describe(op), 'shape': None if mat is None else list(np.shape(mat))})


def matrix_complex(op: Any) -> np.ndarray:
    """Reference dense form for complex-valued operators: mv on the (real) basis vectors, complex128."""
    s = op.in_structure()
    n = dense.size_of(s)
    cols = []
    for j in range(n):
        e = np.zeros(n)
        e[j] = 1
        y = op.mv(dense.unflatten_like(s, e))
        cols.append(np.concatenate([np.asarray(l, dtype=np.complex128).ravel() for l in jax.tree.leaves(y)]))
    return np.stack(cols, axis=1)


def case_complex(rng: Any, ctx: Ctx, index: int) -> None:
    """Complex-valued operators (the transpose is the plain transpose, not the adjoint)."""
    import jax.numpy as jnp

    from furax._base.core import HomothetyOperator
    from furax._base.dense import DenseBlockDiagonalOperator
    from furax._base.diagonal import BroadcastDiagonalOperator, DiagonalOperator
    from furax._base.indices import IndexOperator
    cdt = np.complex128 if ctx.x64 and rng.integers(2) else np.complex64
    n = int(rng.integers(2, 5))
    s = gen.S((n,), cdt)

    def cvals(shape: tuple[int, ...]) -> Any:
        return jnp.asarray((rng.integers(-4, 5, size=shape) + 1j * rng.integers(-4, 5, size=shape)) / 2, dtype=cdt)

    kind = gen.pick(rng, ['homothety', 'diagonal', 'broadcast', 'dense', 'index', 'blocks-real-to-complex'])
    if kind == 'blocks-real-to-complex':
        # complex blocks acting on real inputs: the input dtype is narrower (and of another kind) than the output dtype
        from furax._base.blocks import BlockColumnOperator, BlockDiagonalOperator, BlockRowOperator
        rdt = np.float64 if cdt == np.complex128 else np.float32
        sr = gen.S((n,), rdt)
        m = int(rng.integers(1, 4))
        d1, d2 = (DenseBlockDiagonalOperator(cvals((m, n)), sr, 'ij,j->i') for _ in range(2))
        which = gen.pick(rng, ['row', 'diag', 'col'])
        op = {'row': BlockRowOperator, 'diag': BlockDiagonalOperator, 'col': BlockColumnOperator}[which]([d1, d2] if rng.integers(2) else {'b': d1, 'a': d2})
        LOG.case_key(f'complex:{kind}:{which}:{np.dtype(cdt).name}', True)
        LOG.count('C04.complex', f'{kind}:{which}')
        _judge_complex(op)
        return
    if kind == 'homothety':
        base = HomothetyOperator(cvals(()), s)
    elif kind == 'diagonal':
        base = DiagonalOperator(cvals((n,)), in_structure=s)
    elif kind == 'broadcast':
        base = BroadcastDiagonalOperator(cvals((2, n)), axis_destination=(-2, -1), in_structure=s)
    elif kind == 'dense':
        base = DenseBlockDiagonalOperator(cvals((int(rng.integers(1, 4)), n)), s, 'ij,j->i')
    else:
        idx = jnp.asarray(rng.integers(0, n, size=int(rng.integers(1, n + 2))), dtype=jnp.int32)
        base = IndexOperator(idx, in_structure=s)
    variant = gen.pick(rng, ['A', 'A.T', 'A.T@A', 'A+A2', 'A.T.T'])
    if variant == 'A':
        op = base
    elif variant == 'A.T':
        op = base.T
    elif variant == 'A.T.T':
        op = base.T.T
    elif variant == 'A.T@A':
        op = base.T @ base
    else:
        op = base + base if kind == 'index' else base + type(base)(*([cvals(np.shape(base.value)), s] if kind == 'homothety' else [])) if kind == 'homothety' else base + base
    LOG.case_key(f'complex:{kind}:{variant}:{np.dtype(cdt).name}', True)
    LOG.count('C04.complex', f'{kind}:{variant}')

    _judge_complex(op)


def _judge_complex(op: Any) -> None:
    def judge() -> None:
        ref = matrix_complex(op)
        for impl, f in (('override', lambda: op.as_matrix()), ('generic', lambda: AbstractLinearOperator.as_matrix(op))):
            got = np.asarray(f(), dtype=np.complex128)
            LOG.evaluated('C04.complex')
            if got.shape != ref.shape or not np.allclose(got, ref, rtol=1e-5, atol=1e-5):
                LOG.violation('C04', 'C04.complex', f'{type(op).__name__}.as_matrix/complex/{impl}',
                              'as_matrix differs from mv on the basis vectors for a complex-valued operator', expr=dense.describe(op),
                              ref=np.array2string(ref, precision=3, threshold=40), got=np.array2string(got, precision=3, threshold=40))
                return
    from ..core import quiet
    with quiet():
        try:
            judge()
        except Exception as exc:  # noqa: BLE001
            LOG.skipped('C04.complex', f'oracle-error:{type(exc).__name__}:{str(exc)[:80]}')


def case_mix(rng: Any, ctx: Ctx, index: int) -> None:
    if index % 8 == 7:
        case_complex(rng, ctx, index // 8)
    else:
        case(rng, ctx, index - index // 8)


def run(ctx: Ctx) -> None:
    enable('asmatrix')
    drive(ctx, case_mix, 1800, 18000)
