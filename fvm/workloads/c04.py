"""C04 workload: as_matrix (override and generic) under the as_matrix monitor; linearity probes."""

from __future__ import annotations

from typing import Any

import jax
import numpy as np

from furax._base.core import AbstractLinearOperator

from .. import dense, gen
from ..core import LOG, OracleError, enable, guarded, quiet
from ..workload import Ctx, drive
from .common import case_key, nontrivial_matrix, rand_operator


def linearity(op: Any, rng: Any) -> None:
    mon = 'C04.linearity'
    s = op.in_structure()
    x, y = gen.rand_input(rng, s), gen.rand_input(rng, s)
    a, b = float(rng.integers(-8, 9)) / 4, float(rng.integers(-8, 9)) / 4
    comb = jax.tree.map(lambda u, v: (a * u + b * v).astype(u.dtype), x, y)
    lhs = dense.flatten_np(op.mv(comb))
    rhs = a * dense.flatten_np(op.mv(x)) + b * dense.flatten_np(op.mv(y))
    zero = dense.flatten_np(op.mv(jax.tree.map(lambda u: 0 * u, x)))
    tol = dense.tol_for(op) * 20
    LOG.evaluated(mon)
    ok, err = dense.close(lhs, rhs, tol)
    if not ok:
        LOG.violation('C04', mon, f'{type(op).__name__}.mv/not-linear', f'op(ax+by) != a op(x)+b op(y) (rel err {err:.3g})',
                      expr=dense.describe(op))
    if not np.all(zero == 0):
        LOG.violation('C04', mon, f'{type(op).__name__}.mv/op(0)!=0', f'op(0) = {zero[:8]}', expr=dense.describe(op))
    if not (np.all(np.isfinite(lhs)) and np.all(np.isfinite(rhs))):
        LOG.violation('C04', mon, f'{type(op).__name__}.mv/non-finite', 'finite input gave NaN/Inf', expr=dense.describe(op))


def case(rng: Any, ctx: Ctx, index: int) -> None:
    s, op = rand_operator(rng, ctx, atoms=0.5, index=index)
    with quiet():
        try:
            m = dense.matrix(op)
            LOG.case_key(case_key('M', op), nontrivial_matrix(m))
        except OracleError:
            pass
    try:
        mat = op.as_matrix()                          # monitored (specialised override if any)
    except Exception:  # noqa: BLE001 - judged by the monitor
        LOG.count('C04.driver', 'as_matrix-raised')
        mat = None
    try:
        gmat = AbstractLinearOperator.as_matrix(op)   # monitored (generic implementation)
    except Exception:  # noqa: BLE001
        LOG.count('C04.driver', 'generic-as_matrix-raised')
    if mat is not None:
        def matvec() -> None:
            x = gen.rand_input(rng, op.in_structure())
            y = dense.flatten_np(op.mv(x))
            y2 = np.asarray(mat, dtype=np.float64) @ dense.flatten_np(x)
            LOG.evaluated('C04.matvec')
            ok, err = dense.close(y, y2, dense.tol_for(op) * 20)
            if not ok:
                LOG.violation('C04', 'C04.matvec', f'{type(op).__name__}/as_matrix@x!=op(x)', f'rel err {err:.3g}',
                              expr=dense.describe(op))
        guarded('C04.matvec', matvec)
    guarded('C04.linearity', lambda: linearity(op, rng))
    LOG.sample({'expr': dense.describe(op), 'shape': None if mat is None else list(np.shape(mat))})


def run(ctx: Ctx) -> None:
    enable('asmatrix')
    drive(ctx, case, 1600, 16000)
