"""C08 workload: every tag the library answers True for an operator instance is checked on the
reference dense matrix of that instance."""

from __future__ import annotations

from typing import Any

import lineax as lx
import numpy as np

from .. import dense, gen
from ..core import LOG, guarded, unwrap
from ..workload import Ctx, drive, generate
from .common import param_form, rand_operator, struct_kind

TAGS = {
    'symmetric': lx.is_symmetric, 'diagonal': lx.is_diagonal, 'lower_triangular': lx.is_lower_triangular,
    'upper_triangular': lx.is_upper_triangular, 'tridiagonal': lx.is_tridiagonal,
    'positive_semidefinite': lx.is_positive_semidefinite, 'negative_semidefinite': lx.is_negative_semidefinite,
}


def declared(op: Any) -> dict[str, bool]:
    cls = type(op)
    out = {}
    for name, fn in TAGS.items():
        try:
            out[name] = bool(fn(op))
        except Exception:  # noqa: BLE001
            out[name] = False
    out['orthogonal'] = unwrap(cls.inverse) is unwrap(cls.transpose)
    out['square'] = unwrap(cls.out_structure) is unwrap(cls.in_structure)
    return out


def judge(op: Any) -> None:
    mon = 'C08.tags'
    cls = type(op).__name__
    tags = declared(op)
    true_tags = [t for t, v in tags.items() if v]
    for t in tags:
        LOG.count('C08.answers', f'{cls}:{t}={tags[t]}')
    if not true_tags:
        LOG.evaluated('C08.untagged')
        return
    m = dense.matrix(op)
    tol = dense.tol_for(op) * (1 + np.abs(m).max())
    sq = m.shape[0] == m.shape[1]

    def bad(tag: str, why: str) -> None:
        LOG.violation('C08', mon, f'{cls}/{tag}', why, expr=dense.describe(op), m=np.array2string(m, precision=4, threshold=60))

    for t in true_tags:
        LOG.evaluated(mon)
        LOG.case_key(f'{cls}:{t}:{param_form(op)}:{struct_kind(op.in_structure())}', True)
        if t == 'square':
            if not dense.struct_eq(op.in_structure(), op.out_structure()) or not sq:
                bad(t, 'declared square but input and output structures differ')
            continue
        if not sq:
            bad(t, f'tagged {t} but the matrix is {m.shape}')
            continue
        off = m - np.diag(np.diag(m))
        if t == 'symmetric':
            if not np.allclose(m, m.T, atol=tol):
                bad(t, 'M != M^T')
            if op.T is not op:
                bad(t, 'tagged symmetric but A.T is not A')
        elif t == 'diagonal':
            if np.abs(off).max(initial=0) > tol:
                bad(t, 'off-diagonal entries do not vanish')
        elif t == 'lower_triangular':
            if np.abs(np.triu(m, 1)).max(initial=0) > tol:
                bad(t, 'upper triangle does not vanish')
        elif t == 'upper_triangular':
            if np.abs(np.tril(m, -1)).max(initial=0) > tol:
                bad(t, 'lower triangle does not vanish')
        elif t == 'tridiagonal':
            if np.abs(np.triu(m, 2)).max(initial=0) > tol or np.abs(np.tril(m, -2)).max(initial=0) > tol:
                bad(t, 'entries outside the three central diagonals')
        elif t in ('positive_semidefinite', 'negative_semidefinite'):
            ev = np.linalg.eigvalsh((m + m.T) / 2)
            if t.startswith('positive') and ev.min() < -tol:
                bad(t, f'eigenvalue {ev.min():.3g} < 0')
            if t.startswith('negative') and ev.max() > tol:
                bad(t, f'eigenvalue {ev.max():.3g} > 0')
        elif t == 'orthogonal':
            if not np.allclose(m.T @ m, np.eye(len(m)), atol=tol * 4):
                bad(t, 'M^T M != I')
            mi = dense.matrix(op.I)
            if not np.allclose(mi, m.T, atol=tol * 4):
                bad(t, 'A.I does not act as A.T')


def judge_boundary(op: Any) -> None:
    """An operator accepted at the rejection boundary: its tags are checked on what mv really does."""
    import jax
    cls = type(op).__name__
    tags = [t for t, v in declared(op).items() if v]
    x = gen.rand_input(np.random.default_rng(0), op.in_structure())
    y = op.mv(x)
    LOG.evaluated('C08.tags')
    if [tuple(l.shape) for l in jax.tree.leaves(y)] != [tuple(l.shape) for l in jax.tree.leaves(x)]:
        LOG.violation('C08', 'C08.tags', f'{cls}/boundary/{"+".join(tags)}',
                      'an operator that changes the shape of its input was constructed and is tagged ' + ', '.join(tags),
                      expr=dense.describe(op), out=[list(l.shape) for l in jax.tree.leaves(y)])


_harness: dict[str, Any] = {}


def harness_classes() -> dict[str, Any]:
    """Small dense operators tagged with the library's own decorators (the library ships the lower/upper-triangular
    and semidefinite decorators but no class using them): tags must stay truthful through .T and .I wrappers."""
    if not _harness:
        import equinox
        import jax
        import jax.numpy as jnp

        from furax.operators import (AbstractLinearOperator, lower_triangular, negative_semidefinite, positive_semidefinite,
                                     upper_triangular)

        class _Dense(AbstractLinearOperator):
            m: jax.Array
            _s: Any = equinox.field(static=True)

            def mv(self, x: Any) -> Any:
                return self.m @ x

            def in_structure(self) -> Any:
                return self._s

        for nm, dec in (('lower', lower_triangular), ('upper', upper_triangular), ('psd', positive_semidefinite), ('nsd', negative_semidefinite)):
            _harness[nm] = dec(type(f'Harness_{nm}', (_Dense,), {}))
    return _harness


def case_harness(rng: Any, ctx: Ctx) -> None:
    import jax
    import jax.numpy as jnp
    n = int(rng.integers(2, 5))
    dt = np.float32
    a = rng.integers(-4, 5, size=(n, n)) / 2 + np.eye(n) * 6
    mats = {'lower': np.tril(a), 'upper': np.triu(a), 'psd': a @ a.T, 'nsd': -(a @ a.T)}
    kind = gen.pick(rng, sorted(mats))
    op = harness_classes()[kind](jnp.asarray(mats[kind], dtype=dt), jax.ShapeDtypeStruct((n,), dt))
    for variant, o in (('A', op), ('A.T', op.T), ('A.T.T', op.T.T)):
        LOG.count('C08.harness', f'{kind}:{variant}')
        guarded('C08.tags', lambda o=o: judge_foreign(o, f'{kind}:{variant}'))
    for variant, f in (('A.I', lambda: op.I), ('A.T.I', lambda: op.T.I)):
        try:
            o = f()
        except Exception:  # noqa: BLE001
            continue
        LOG.count('C08.harness', f'{kind}:{variant}')
        guarded('C08.tags', lambda o=o: judge_foreign(o, f'{kind}:{variant}', inverse_of=mats[kind].T if 'T' in variant else mats[kind]))


def case_harness_complex(rng: Any, ctx: Ctx) -> None:
    """Semidefinite-decorated operators on complex data: Hermitian, NOT symmetric.  Whatever the tags answer must be true of the
    complex matrix (symmetric means M = M^T without conjugation, and A.T acting as M^T)."""
    import jax
    import jax.numpy as jnp
    n = int(rng.integers(2, 4))
    b = rng.integers(-3, 4, size=(n, n)) + 1j * rng.integers(-3, 4, size=(n, n))
    h = b @ b.conj().T + np.eye(n)                       # Hermitian positive definite, complex off-diagonal entries
    kind = gen.pick(rng, ['psd', 'nsd'])
    m = h if kind == 'psd' else -h
    op = harness_classes()[kind](jnp.asarray(m, dtype=jnp.complex64), jax.ShapeDtypeStruct((n,), jnp.complex64))
    LOG.count('C08.harness', f'{kind}:complex')

    def judge_c() -> None:
        tags = {t: bool(fn(op)) for t, fn in TAGS.items()}
        LOG.evaluated('C08.tags')
        tol = 1e-4 * (1 + np.abs(m).max())
        if tags['symmetric'] and not np.allclose(m, m.T, atol=tol):
            LOG.violation('C08', 'C08.tags', f'{type(op).__name__}/symmetric/decorated-{kind}-complex',
                          'a Hermitian (not symmetric) complex operator answers symmetric', m=np.array2string(m, precision=2))
        if tags['diagonal'] and np.abs(m - np.diag(np.diag(m))).max() > tol:
            LOG.violation('C08', 'C08.tags', f'{type(op).__name__}/diagonal/decorated-{kind}-complex', 'answers diagonal', m=np.array2string(m, precision=2))
        # the transpose acts as M^T (no conjugation)
        x = jnp.asarray(rng.integers(-3, 4, size=n) + 1j * rng.integers(-3, 4, size=n), dtype=jnp.complex64)
        got = np.asarray(op.T.mv(x))
        if not np.allclose(got, m.T @ np.asarray(x), atol=1e-3 * (1 + np.abs(m).max() * 10)):
            LOG.violation('C08', 'C08.tags', f'{type(op).__name__}/transpose/decorated-{kind}-complex',
                          'A.T of a semidefinite-decorated complex operator does not act as the transposed matrix')
    guarded('C08.tags', judge_c)


def judge_foreign(op: Any, label: str, inverse_of: Any = None) -> None:
    """Tags of an operator built from a harness class (or a library wrapper around one), judged on its dense matrix
    (the matrix of a solver-based inverse is the NumPy inverse of the operand: no solve needed)."""
    tags = {t: bool(fn(op)) for t, fn in TAGS.items()}
    true_tags = [t for t, v in tags.items() if v]
    LOG.evaluated('C08.tags')
    if not true_tags:
        return
    m = np.linalg.inv(np.asarray(inverse_of, np.float64)) if inverse_of is not None else dense.matrix(op)
    tol = 1e-4 * (1 + np.abs(m).max())
    for t in true_tags:
        ok = True
        if t == 'lower_triangular':
            ok = np.abs(np.triu(m, 1)).max(initial=0) <= tol
        elif t == 'upper_triangular':
            ok = np.abs(np.tril(m, -1)).max(initial=0) <= tol
        elif t == 'diagonal':
            ok = np.abs(m - np.diag(np.diag(m))).max(initial=0) <= tol
        elif t == 'symmetric':
            ok = np.allclose(m, m.T, atol=tol)
        elif t == 'positive_semidefinite':
            ok = np.linalg.eigvalsh((m + m.T) / 2).min() >= -tol
        elif t == 'negative_semidefinite':
            ok = np.linalg.eigvalsh((m + m.T) / 2).max() <= tol
        elif t == 'tridiagonal':
            ok = np.abs(np.triu(m, 2)).max(initial=0) <= tol and np.abs(np.tril(m, -2)).max(initial=0) <= tol
        if not ok:
            LOG.violation('C08', 'C08.tags', f'{type(op).__name__}/{t}/decorated-{label.split(":")[0]}',
                          f'{label} answers {t} but its matrix does not have the property', m=np.array2string(m, precision=3, threshold=40))


def case(rng: Any, ctx: Ctx, index: int) -> None:
    if index % 6 == 5:
        if index % 18 == 5:
            case_harness_complex(rng, ctx)
            return
        case_harness(rng, ctx)
        return
    s, op = rand_operator(rng, ctx, atoms=0.7, lazy_inverse=False, index=index)
    # visit the operator and every operator nested in it (each instance judged once)
    seen: list[Any] = []
    dense.walk(op, seen.append)
    for o in seen[:12]:
        if type(o).__module__.startswith('furax.') and dense.size_of(o.in_structure()) <= 30:
            guarded('C08.tags', lambda o=o: judge(o))
    # tagged classes with dedicated random parameters (batched Toeplitz bands, negative scalars, angle arrays)
    extra = gen.pick(rng, ['toeplitz', 'homothety', 'qurot', 'qurot_T', 'hwp', 'diagonal', 'diagonal_I', 'identity', 'toast'])
    u = gen.universe(rng)
    cand = {'toeplitz': ['v3', 'v4', 'm23', 't213'], 'toast': ['v3', 'v4']}.get(extra, sorted(u))
    st = u[gen.pick(rng, cand)]
    o2 = None
    if extra == 'toeplitz':
        o2 = gen.a_toeplitz(rng, st)
    elif extra == 'homothety':
        o2 = gen.a_homothety(rng, st)
    elif extra in ('qurot', 'qurot_T'):
        o2 = gen.a_qurot(rng, st)
        if o2 is not None and extra == 'qurot_T':
            o2 = o2.T
    elif extra == 'hwp':
        o2 = gen.a_hwp(rng, st)
    elif extra in ('diagonal', 'diagonal_I'):
        o2 = gen.a_diagonal(rng, st)
        if o2 is not None and extra == 'diagonal_I':
            o2 = o2.I
    elif extra == 'identity':
        o2 = gen.a_identity(rng, st)
    elif extra == 'toast':
        o2 = gen.a_toast(rng, st)
    if o2 is not None:
        guarded('C08.tags', lambda: judge(o2))
    # composites made only of symmetric-tagged operators (a product of symmetric matrices is not symmetric)
    leafs = [k for k in ('v3', 'v4', 'm23', 'm22', 't213') if k in u]
    st2 = u[gen.pick(rng, leafs)]
    parts = [gen.atom(rng, st2, only=('diagonal', 'toeplitz', 'homothety', 'identity')) for _ in range(int(rng.integers(2, 4)))]
    if all(dense.struct_eq(p.out_structure(), st2) for p in parts):
        comp = gen.combine(rng, parts) if rng.integers(2) else parts[0] + parts[1]
        LOG.count('C08.composite', type(comp).__name__)
        guarded('C08.tags', lambda: judge(comp))
    # the rejection boundary: parameters the library refuses must not yield a tagged operator if accepted
    from furax._base.diagonal import DiagonalOperator
    import jax.numpy as jnp
    dt = gen.data_dtype(st2)
    probes = [
        (jnp.arange(1, 4, dtype=dt), -1, gen.S((1,), dt)),                       # stretches a length-1 axis
        (jnp.arange(1, 4, dtype=dt), 0, gen.S((1, 4), dt)),
        (jnp.ones((2, 3), dt), -1, gen.S((3,), dt)),                              # adds a dimension
        (jnp.ones((1,), dt), 1, gen.S((4,), dt)),                                 # unit value beyond the right edge
    ]
    if rng.integers(6) == 0:
        # a rectangular observation matrix: the class is tagged square, so such a file must be refused (or the operator must
        # not answer "square")
        from furax.toast.obs_matrix import ToastObservationMatrixOperator
        nr, nc = gen.pick(rng, [(4, 6), (6, 4), (2, 3), (5, 2)])
        path = gen.toast_path(rng, nr, np.float32, ncol=nc)
        try:
            rect = ToastObservationMatrixOperator(path)
        except Exception:  # noqa: BLE001
            LOG.count('C08.boundary-probe', 'rectangular-toast-refused')
        else:
            LOG.count('C08.boundary-probe', 'rectangular-toast-accepted')
            guarded('C08.tags', lambda: judge(rect))
    vals, axis, st3 = probes[int(rng.integers(len(probes)))]
    try:
        bad = DiagonalOperator(vals, axis_destination=axis, in_structure=st3)
    except ValueError:
        LOG.count('C08.boundary-probe', 'refused')
    else:
        LOG.count('C08.boundary-probe', 'accepted')
        guarded('C08.tags', lambda: judge_boundary(bad))
    LOG.sample({'expr': dense.describe(op), 'tags': {k: v for k, v in declared(op).items() if v}})


def run(ctx: Ctx) -> None:
    drive(ctx, case, 2400, 24000)
