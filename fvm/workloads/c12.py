"""C12 workload: index and pack operators against NumPy indexing / scatter-add reference models."""

from __future__ import annotations

from typing import Any

import jax
import jax.numpy as jnp
import numpy as np

from furax._base.indices import IndexOperator
from furax._base.linear import PackOperator

from .. import dense, gen, refmodels
from ..core import LOG, enable, guarded, quiet
from ..workload import Ctx, drive
from .common import struct_kind

S = gen.S


def rich_index(rng: Any, shape: tuple[int, ...]) -> tuple[tuple[Any, ...], str]:
    """Random in-bounds index expression for a leaf of the given shape, and its form string."""
    r = len(shape)
    n_items = int(rng.integers(1, r + 1))
    use_ellipsis = bool(rng.integers(3) == 0)
    adv_shape: tuple[int, ...] | None = None
    items: list[Any] = []
    forms: list[str] = []
    have_mask = False
    # axes addressed: leading n_items axes, or (with an ellipsis) some leading and some trailing ones
    if use_ellipsis:
        n_lead = int(rng.integers(0, n_items + 1))
        axes = list(range(n_lead)) + list(range(r - (n_items - n_lead), r))
    else:
        n_lead = n_items
        axes = list(range(n_items))
    for pos, ax in enumerate(axes):
        n = shape[ax]
        kind = gen.pick(rng, ['int', 'slice', 'slice', 'array', 'array', 'array2', 'mask', 'full'])
        if kind == 'mask' and (have_mask or adv_shape is not None):
            kind = 'slice'
        if kind in ('array', 'array2') and have_mask:
            kind = 'int'
        if kind == 'int':
            items.append(int(rng.integers(-n, n)))
        elif kind == 'full':
            items.append(slice(None))
        elif kind == 'slice':
            a = int(rng.integers(-n, n))
            b = int(rng.integers(-n, n + 1))
            step = int(gen.pick(rng, [1, 1, 2, -1]))
            sl = slice(a if rng.integers(2) else None, b if rng.integers(2) else None, step if rng.integers(2) else None)
            if len(range(*sl.indices(n))) == 0:
                sl = slice(None, None, step)
            items.append(sl)
        elif kind in ('array', 'array2'):
            if adv_shape is None:
                k = int(rng.integers(1, n + 3))
                adv_shape = ((2, k) if rng.integers(2) else (1, k)) if kind == 'array2' else (k,)
            vals = rng.integers(-n, n, size=adv_shape)
            if rng.integers(4) == 0:
                vals = np.abs(vals) % n  # non-negative only
            elif rng.integers(4) == 0:
                # sorted arrays: contiguous ranges and look-alikes with a repeated entry and a gap ([0, 0, 2])
                vals = np.sort(np.abs(vals) % n, axis=-1)
                if rng.integers(2) and vals.shape[-1] <= n:
                    vals = np.broadcast_to(np.arange(vals.shape[-1]) + int(rng.integers(0, n - vals.shape[-1] + 1)), vals.shape).copy()
                    if rng.integers(2) and vals.shape[-1] >= 3:
                        vals[..., 1] = vals[..., 0]            # same first/last/length as the range, not a range
            items.append(jnp.asarray(vals, dtype=jnp.int32 if rng.integers(2) else jnp.int16))
        else:
            m = rng.integers(0, 2, size=(n,)).astype(bool)
            if not m.any():
                m[int(rng.integers(n))] = True
            items.append(jnp.asarray(m))
            have_mask = True
        forms.append(kind)
    if use_ellipsis:
        items = items[:n_lead] + [Ellipsis] + items[n_lead:]
        forms = forms[:n_lead] + ['...'] + forms[n_lead:]
    return tuple(items), ','.join(forms)


def common_shape(s: Any) -> tuple[int, ...] | None:
    ls = dense.leaves(s)
    r = min(len(l.shape) for l in ls)
    if r == 0:
        return None
    if len({len(l.shape) for l in ls}) == 1:
        return tuple(min(l.shape[i] for l in ls) for i in range(r))
    return None


def ref_matrix(op: Any) -> np.ndarray:
    """Dense matrix of the NumPy reference model of an index/pack operator."""
    s = op.in_structure()
    n = dense.size_of(s)
    cols = []
    for j in range(n):
        e = np.zeros(n)
        e[j] = 1
        x = dense.unflatten_like(s, e)
        model = refmodels.ref_index if type(op).__name__ == 'IndexOperator' else refmodels.ref_pack
        cols.append(np.concatenate([l.ravel() for l in model(op, x)]) if n else np.zeros(0))
    return np.stack(cols, axis=1)


def check_products(op: Any, mon: str) -> None:
    """(P.T @ P).reduce() and (P @ P.T).reduce() against the reference products."""
    mp = ref_matrix(op)
    name = type(op).__name__
    ptp = (op.T @ op).reduce()
    got = dense.matrix(ptp)
    LOG.evaluated(mon)
    LOG.count('C12.ptp.result', type(ptp).__name__)
    ok, err = dense.close(mp.T @ mp, got, 1e-6)
    if not ok:
        LOG.violation('C12', mon, f'{name}/(P.T@P).reduce()/{type(ptp).__name__}',
                      f'not the diagonal of selection multiplicities (rel err {err:.3g})', expr=dense.describe(op),
                      expected_diag=np.diag(mp.T @ mp).tolist(), got_diag=np.diag(got).tolist())
    ppt = (op @ op.T).reduce()
    LOG.count('C12.ppt.result', type(ppt).__name__)
    ref = mp @ mp.T
    dup = not np.allclose(ref, np.eye(len(ref)))
    LOG.count('C12.ppt.duplicates', dup)
    if type(ppt).__name__ == 'IdentityOperator' and dup:
        LOG.violation('C12', mon, f'{name}/(P@P.T).reduce()/identity-with-duplicates',
                      'simplified to the identity although an input element is selected twice', expr=dense.describe(op))
        return
    got2 = dense.matrix(ppt)
    ok, err = dense.close(ref, got2, 1e-6)
    if not ok:
        LOG.violation('C12', mon, f'{name}/(P@P.T).reduce()/{type(ppt).__name__}', f'differs from P P^T (rel err {err:.3g})',
                      expr=dense.describe(op))


def check_transpose(op: Any, rng: Any, mon: str) -> None:
    y = gen.rand_input(rng, op.out_structure())
    got = [np.asarray(l, dtype=np.float64) for l in jax.tree.leaves(op.T.mv(y))]
    if type(op).__name__ == 'IndexOperator':
        exp = refmodels.ref_index_T(op, y)
    else:
        mask = np.asarray(op.mask)
        exp = []
        for l, yl in zip(jax.tree.leaves(op.in_structure()), refmodels.np_leaves(y)):
            z = np.zeros(l.shape)
            z[mask] = yl
            exp.append(z)
    LOG.evaluated(mon)
    for e, g in zip(exp, got):
        if e.shape != g.shape or not np.allclose(e, g, atol=1e-6):
            LOG.violation('C12', mon, f'{type(op).__name__}.T.mv/scatter-add', 'transpose does not accumulate the selected positions',
                          expr=dense.describe(op), expected=np.array2string(e, threshold=40), got=np.array2string(g, threshold=40))
            return


def case_index(rng: Any, ctx: Ctx, index: int) -> None:
    gen.begin_case(rng)
    dt = gen.case_dtype(rng)
    if rng.integers(6) == 0:
        dt = np.dtype(np.int32)       # selecting and scattering integer data
    skind = gen.pick(rng, ['leaf', 'leaf', 'list', 'dict', 'stokes', 'mixrank'])
    shape = tuple(int(v) for v in rng.integers(1, 5, size=int(rng.integers(1, 4))))
    if skind == 'leaf':
        s: Any = S(shape, dt)
    elif skind == 'list':
        s = [S(shape, dt), S(tuple(d + int(rng.integers(0, 2)) for d in shape), dt)]
    elif skind == 'dict':
        s = {'b': S(shape, dt), 'a': S(shape, dt)}
    elif skind == 'stokes':
        s = gen.pick(rng, gen.STOKES).structure_for(shape, dt)
    else:
        s = (S(shape + (2,), dt), S(shape, dt))
    cs = common_shape(s)
    mixrank = cs is None
    if mixrank:
        cs = shape
    idx, form = rich_index(rng, cs)
    if mixrank and Ellipsis in idx:
        idx = tuple(i for i in idx[: idx.index(Ellipsis)])  # trailing-axis forms differ per rank: leading only
        form = form.split(',...')[0]
        if not idx:
            idx = (0,)
    has_mask = any(getattr(i, 'dtype', None) == bool for i in idx)
    try:
        out_ref = gen.index_out_structure(s, idx)
    except IndexError:
        LOG.skipped('driver', 'gen-error:index-out-of-bounds')
        return
    scalar_out = any(l.shape == () for l in dense.leaves(out_ref))
    key = f'index:{form}:rank{len(shape)}:{skind}'
    nontrivial = any(k in form for k in ('array', 'mask')) or any(isinstance(i, int) and i < 0 for i in idx)
    LOG.case_key(key, nontrivial)
    mon = 'C12.construct'
    arg = idx if len(idx) > 1 or rng.integers(2) else idx[0]
    ops = {}
    for how in (['with'] if has_mask else ['with', 'without']):
        try:
            if how == 'with':
                ops[how] = IndexOperator(arg, in_structure=s, out_structure=out_ref)
            else:
                ops[how] = IndexOperator(arg, in_structure=s)
            LOG.evaluated(mon)
            LOG.count('C12.construct.how', how)
        except Exception as exc:  # noqa: BLE001
            LOG.evaluated(mon)
            LOG.violation('C12', mon, f'IndexOperator.__init__/{how}-out_structure/raises-{type(exc).__name__}'
                          + ('/scalar-output' if scalar_out and how == 'with' else ''),
                          f'legal in-bounds index expression refused: {str(exc)[:150]}', index=form, s=dense.struct_str(s))
    if has_mask:
        try:
            IndexOperator(arg, in_structure=s)
            LOG.evaluated(mon)
            LOG.violation('C12', mon, 'IndexOperator.__init__/mask-without-out_structure-accepted', 'documented ValueError not raised',
                          index=form)
        except ValueError:
            LOG.evaluated(mon)
        except Exception as exc:  # noqa: BLE001
            LOG.evaluated(mon)
    if not ops:
        return
    op = ops.get('with') or ops['without']
    if len(ops) == 2:
        a, b = ops['with'], ops['without']
        LOG.evaluated('C12.construct-agree')
        if not dense.struct_eq_loose(a.out_structure(), b.out_structure()) or a.unique_indices != b.unique_indices:
            LOG.violation('C12', 'C12.construct-agree', 'IndexOperator.__init__/with-vs-without-out_structure',
                          'operators built with and without out_structure differ', index=form,
                          with_=dense.struct_str(a.out_structure()), without=dense.struct_str(b.out_structure()))
        op = b if rng.integers(2) else a
    LOG.evaluated('C12.out_structure')
    if not dense.struct_eq_loose(op.out_structure(), out_ref):
        LOG.violation('C12', 'C12.out_structure', 'IndexOperator.out_structure/not-numpy', 'declared output differs from x[indices]',
                      index=form, got=dense.struct_str(op.out_structure()), expected=dense.struct_str(out_ref))
    x = gen.rand_input(rng, s)
    y = op.mv(x)                                          # monitored by the reference-model monitor
    if skind == 'stokes':
        # the container's own indexing x[index] selects the same elements of every component as the operator does
        def getitem() -> None:
            direct = x[idx if len(idx) > 1 else idx[0]]
            LOG.evaluated('C12.stokes-getitem')
            same = type(direct) is type(x) and all(
                np.shape(a) == np.shape(b) and np.array_equal(np.asarray(a), np.asarray(b)) for a, b in zip(jax.tree.leaves(direct), jax.tree.leaves(y)))
            if not same or len(jax.tree.leaves(direct)) != len(jax.tree.leaves(y)):
                LOG.violation('C12', 'C12.stokes-getitem', 'StokesPyTree.__getitem__/differs-from-IndexOperator',
                              'x[index] of a Stokes container differs from IndexOperator(index)(x)', index=form, s=dense.struct_str(s))
        guarded('C12.stokes-getitem', getitem)
    if dense.size_of(op.out_structure()) == 0:
        return
    guarded('C12.transpose', lambda: check_transpose(op, rng, 'C12.transpose'))
    if dense.size_of(s) * dense.size_of(op.out_structure()) <= 900:
        guarded('C12.products', lambda: check_products(op, 'C12.products'))
    # a duplicate-free integer array declared unique by the user
    if rng.integers(4) == 0 and gen.is_sds(s):
        n0 = s.shape[0]
        perm = jnp.asarray(rng.permutation(n0)[: int(rng.integers(1, n0 + 1))], dtype=jnp.int32)
        pu = IndexOperator(perm, in_structure=s, out_structure=gen.index_out_structure(s, (perm,)), unique_indices=True)
        guarded('C12.products', lambda: check_products(pu, 'C12.products'))
    LOG.sample({'index': form, 'structure': dense.struct_str(s), 'op': dense.describe(op)})


def case_nearmiss(rng: Any, ctx: Ctx, index: int) -> None:
    """P @ Q.T / Q.T @ P for two DIFFERENT selections (other array, other integer, other slice, a pack and an index, repeated
    entries): reduce() may do what it likes except change the map (only P @ P.T of a duplicate-free P is the identity)."""
    from .. import patterns
    from furax._base.core import CompositionOperator
    gen.begin_case(rng)
    form = [0, 1, 2, 7, 8][index % 5]
    tag, ops = patterns.p_nearmiss(rng, form)
    LOG.case_key(f'nearmiss:{tag}', True)
    LOG.count('C12.nearmiss', tag)

    def judge() -> None:
        e = CompositionOperator(list(ops))
        with quiet():
            m0 = dense.matrix(ops[0]) @ dense.matrix(ops[1])
        r = e.reduce()
        LOG.evaluated('C12.products')
        with quiet():
            m1 = dense.matrix(r)
        if m0.shape != m1.shape or not np.allclose(m0, m1, atol=1e-5):
            LOG.violation('C12', 'C12.products', f'{type(ops[0]).__name__}@{type(ops[1]).__name__}/near-miss/{type(r).__name__}',
                          f'{tag}: reduce() changed the map of a product of two different selections', left=dense.describe(ops[0]), right=dense.describe(ops[1]))
    guarded('C12.products', judge)


def case_chain(rng: Any, ctx: Ctx, index: int) -> None:
    """H = Q @ P with Q an axis permutation / reshape after the selection P: in (H.T @ H).reduce() the pair Q.T @ Q vanishes first
    and only then are P.T and P adjacent - they must still become the diagonal of multiplicities (likewise P @ P.T inside
    H @ H.T with H = P @ Q.T for a duplicate-free P)."""
    from furax._base.axes import RavelOperator, ReshapeOperator
    from furax._base.core import CompositionOperator
    from .c07 import residue
    gen.begin_case(rng)
    dt = gen.case_dtype(rng)
    shape = tuple(int(v) for v in rng.integers(2, 5, size=int(rng.integers(2, 4))))
    s = S(shape, dt)
    n0 = shape[0]
    unique = bool(rng.integers(2))
    if unique:
        arr = rng.permutation(n0)[: int(rng.integers(1, n0 + 1))]
    else:
        arr = rng.integers(0, n0, size=int(rng.integers(2, n0 + 3)))
        arr[1] = arr[0]
    idx = (jnp.asarray(arr, dtype=jnp.int32),)
    p = IndexOperator(idx, in_structure=s, out_structure=gen.index_out_structure(s, idx), unique_indices=unique)

    def mk_q(st: Any) -> Any:
        k = gen.pick(rng, ['moveaxis', 'ravel', 'reshape'])
        if k == 'moveaxis':
            q = gen.a_moveaxis(rng, st)
            if q is not None:
                return q
        if k == 'ravel':
            return RavelOperator(in_structure=st)
        return ReshapeOperator((-1,), in_structure=st)
    if unique:
        q = mk_q(s)                                  # H = P @ Q.T ; H @ H.T = P @ Q.T @ Q @ P.T
        ops = [p, q.T, q, p.T]
        want = 'index_transpose'
    else:
        q = mk_q(p.out_structure())                  # H = Q @ P ; H.T @ H = P.T @ Q.T @ Q @ P
        ops = [p.T, q.T, q, p]
        want = 'transpose_index'
    LOG.case_key(f'chain:{want}:{type(q).__name__}:rank{len(shape)}', True)
    LOG.count('C12.chain', f'{want}:{type(q).__name__}')

    def judge() -> None:
        e = CompositionOperator(list(ops))
        with quiet():
            m0 = None
            for o in ops:
                mo = dense.matrix(o)
                m0 = mo if m0 is None else m0 @ mo
        r = e.reduce()
        LOG.evaluated('C12.products')
        rops = list(r.operands) if isinstance(r, CompositionOperator) else [r]
        for a, b in zip(rops[:-1], rops[1:]):
            if residue(a, b) == want:
                LOG.violation('C12', 'C12.products', f'IndexOperator/chain/{want}/not-simplified',
                              'the selection and its transpose became adjacent after their neighbours cancelled and were left unsimplified',
                              before=[dense.skeleton(o) for o in ops], after=[dense.skeleton(o) for o in rops])
                return
        with quiet():
            m1 = dense.matrix(r)
        if m0.shape != m1.shape or not np.allclose(m0, m1, atol=1e-4):
            LOG.violation('C12', 'C12.products', f'IndexOperator/chain/{want}/matrix', 'reduce() changed the map', before=[dense.skeleton(o) for o in ops])
    guarded('C12.products', judge)


def case_pack(rng: Any, ctx: Ctx, index: int) -> None:
    gen.begin_case(rng)
    dt = gen.case_dtype(rng)
    if rng.integers(6) == 0:
        dt = np.dtype(np.int32)
    shape = tuple(int(v) for v in rng.integers(1, 5, size=int(rng.integers(1, 4))))
    skind = gen.pick(rng, ['leaf', 'stokes', 'list', 'dict', 'mixrank'])
    if skind == 'leaf':
        s: Any = S(shape, dt)
    elif skind == 'stokes':
        s = gen.pick(rng, gen.STOKES).structure_for(shape, dt)
    elif skind == 'list':
        s = [S(shape, dt), S(shape, dt)]
    elif skind == 'dict':
        s = {'b': S(shape, dt), 'a': S(shape, dt)}
    else:
        s = (S(shape + (2,), dt), S(shape, dt))
    k = int(rng.integers(1, len(shape) + 1))
    mask = rng.integers(0, 2, size=shape[:k]).astype(bool)
    if not mask.any():
        mask.flat[0] = True
    if rng.integers(5) == 0:
        mask[...] = True          # nothing is dropped (a mask of rank >= 2 still flattens the masked axes)
    LOG.case_key(f'pack:mask{k}d{"-all" if mask.all() else ""}:rank{len(shape)}:{skind}', True)
    mon = 'C12.construct'
    try:
        op = PackOperator(jnp.asarray(mask), s)
        x = gen.rand_input(rng, s)
        y = op.mv(x)                                      # monitored by the reference-model monitor
        LOG.evaluated(mon)
        LOG.count('C12.construct.how', 'pack:' + skind)
    except Exception as exc:  # noqa: BLE001
        LOG.evaluated(mon)
        LOG.violation('C12', mon, f'PackOperator.mv/raises-{type(exc).__name__}/{"stokes-or-leaf" if skind in ("leaf", "stokes") else "generic-pytree"}',
                      f'pack operator cannot be applied: {str(exc)[:150]}', s=dense.struct_str(s))
        return
    LOG.evaluated('C12.out_structure')
    exp = jax.tree.map(lambda l: S((int(mask.sum()),) + tuple(l.shape[k:]), l.dtype), s)
    if not dense.struct_eq_loose(op.out_structure(), exp):
        LOG.violation('C12', 'C12.out_structure', 'PackOperator.out_structure/not-numpy', 'declared output differs from leaf[mask]',
                      got=dense.struct_str(op.out_structure()), expected=dense.struct_str(exp))
    guarded('C12.transpose', lambda: check_transpose(op, rng, 'C12.transpose'))
    if dense.size_of(s) * dense.size_of(op.out_structure()) <= 900:
        guarded('C12.products', lambda: check_products(op, 'C12.products'))

        def reduced() -> None:
            r = op.reduce()
            LOG.evaluated('C12.products')
            m1, m2 = ref_matrix(op), dense.matrix(r)
            if m1.shape != m2.shape or not np.array_equal(m1, m2) or not dense.struct_eq_loose(r.out_structure(), op.out_structure()):
                LOG.violation('C12', 'C12.products', f'PackOperator.reduce/{type(r).__name__}', 'reduce() changed the pack operator', expr=dense.describe(op),
                              mask=list(mask.shape), all_true=bool(mask.all()))
        guarded('C12.products', reduced)


def run(ctx: Ctx) -> None:
    enable('mvref')
    drive(ctx, case_index, 2400, 24000, stream=0, part='index')
    def pack_mix(rng: Any, c: Ctx, index: int) -> None:
        if index % 4 == 3:
            return case_nearmiss(rng, c, index // 4)
        if index % 4 == 2:
            return case_chain(rng, c, index // 4)
        return case_pack(rng, c, index)
    drive(ctx, pack_mix, 800, 8000, stream=1, part='pack')
