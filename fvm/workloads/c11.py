"""C11 workload: (broadcast) diagonal operators against a NumPy expand_dims/broadcast reference."""

from __future__ import annotations

from typing import Any

import jax
import jax.numpy as jnp
import numpy as np

from furax._base.diagonal import BroadcastDiagonalOperator, DiagonalOperator

from .. import dense, gen, refmodels
from ..core import LOG, enable, guarded
from ..workload import Ctx, drive

S = gen.S


def normalise_axis_spec(spec: Any, vndim: int) -> tuple[int, ...]:
    """Documented expansion of a scalar axis_destination."""
    if isinstance(spec, int):
        if spec >= 0:
            return tuple(range(spec, spec + vndim))
        return tuple(range(spec - vndim + 1, spec + 1))
    return tuple(spec)


def reference_outcome(values_shape: tuple[int, ...], axes: tuple[int, ...], leaf_shapes: list[tuple[int, ...]]) -> tuple[str, list[tuple[int, ...]]]:
    """('ok', output shapes) | ('error', []) according to the reference semantics."""
    outs = []
    v = np.zeros(values_shape)
    for sh in leaf_shapes:
        try:
            lay, right = refmodels.diagonal_layout(v, axes, len(sh))
            outs.append(np.broadcast_shapes(lay.shape, tuple(sh) + (1,) * right))
        except ValueError:
            return 'error', []
    return 'ok', outs


def case(rng: Any, ctx: Ctx, index: int) -> None:
    gen.begin_case(rng)
    dt = gen.case_dtype(rng)
    nleaves = int(gen.pick(rng, [1, 1, 2, 3]))
    ranks = [int(rng.integers(1, 5)) for _ in range(nleaves)]
    base = tuple(int(v) for v in rng.integers(1, 4, size=4))
    # leaves share their leading or trailing dimensions so that one specification can fit them all
    align = gen.pick(rng, ['lead', 'trail'])
    shapes = [base[:r] if align == 'lead' else base[4 - r:] for r in ranks]
    if rng.integers(6) == 0:
        shapes = [tuple(int(v) for v in rng.integers(1, 4, size=r)) for r in ranks]
    vr = int(rng.integers(1, 4))
    rmin = min(ranks)
    form = gen.pick(rng, ['int+', 'int-', 'tuple', 'tuple', 'tuple-mixed', 'beyond-left', 'beyond-right', 'dup'])
    if form == 'int+':
        spec: Any = int(rng.integers(0, rmin + 1))
    elif form == 'int-':
        spec = -int(rng.integers(1, rmin + 2))
    elif form in ('tuple', 'tuple-mixed'):
        vr = min(vr, rmin)
        if align == 'lead' or nleaves == 1 and rng.integers(2):
            ax = [int(a) for a in rng.permutation(rmin)[:vr]]
            if form == 'tuple-mixed' and nleaves == 1:
                ax = [a - ranks[0] if rng.integers(2) else a for a in ax]
        else:
            ax = [-int(a) - 1 for a in rng.permutation(rmin)[:vr]]
        spec = tuple(ax) if rng.integers(2) else list(ax)
    elif form == 'beyond-left':
        vr = min(vr, 2)
        spec = tuple(-(rmin + 1 + k) for k in range(vr))[::-1] if rng.integers(2) else (-(rmin + 1),) + ((-1,) if vr > 1 else ())
        vr = len(spec)
    elif form == 'beyond-right':
        spec = tuple(range(rmin, rmin + vr)) if rng.integers(2) else ((0, rmin) if vr > 1 else (rmin,))
        vr = len(spec)
    else:
        vr = 2
        a = int(rng.integers(0, rmin))
        spec = (a, a - ranks[0]) if rng.integers(2) else (a, a)
    axes = normalise_axis_spec(spec, vr)
    # value dims: match the first leaf where the axis exists, else random; sometimes 1 (broadcast) or wrong
    vshape = []
    for a in axes:
        sh = shapes[0]
        an = a if a >= 0 else len(sh) + a
        d = sh[an] if 0 <= an < len(sh) else int(rng.integers(1, 4))
        r = rng.integers(10)
        if r == 0:
            d = 1
        elif r == 1:
            d = d + 1
        vshape.append(d)
    vshape = tuple(vshape)
    ldts = [dt] * nleaves
    if nleaves > 1 and rng.integers(3) == 0:
        # leaves of different dtypes in one pytree, values no wider than the narrowest: each leaf is multiplied in its own precision
        narrow, wide_ = (np.float32, np.float64) if gen.X64 else (np.float16, np.float32)
        ldts = [narrow if rng.integers(2) else wide_ for _ in range(nleaves)]
        ldts[int(rng.integers(nleaves))] = narrow
        dt = np.dtype(narrow)
        LOG.count('C11.mixed-dtype-leaves', '+'.join(sorted({np.dtype(d).name for d in ldts})))
    values = gen.dy(rng, vshape, dt)
    s: Any = S(shapes[0], dt) if nleaves == 1 else ([S(sh, d) for sh, d in zip(shapes, ldts)] if rng.integers(2) else {f'k{i}': S(sh, d) for i, (sh, d) in enumerate(zip(shapes, ldts))})
    outcome, outs = reference_outcome(vshape, axes, shapes)
    strict_ok = outcome == 'ok' and all(tuple(o) == tuple(sh) for o, sh in zip(outs, shapes))
    key = f'{form}:v{vr}d:ranks{sorted(ranks)}:{align}:{outcome}/{"strict" if strict_ok else "changes-shape"}'
    LOG.case_key(key, True)
    for cls, legal in ((BroadcastDiagonalOperator, outcome == 'ok'), (DiagonalOperator, strict_ok)):
        mon = 'C11.construct'
        cname = cls.__name__
        try:
            op = cls(values, axis_destination=spec, in_structure=s)
        except ValueError as exc:
            LOG.evaluated(mon)
            LOG.count('C11.construct', f'{cname}:refused')
            if legal:
                LOG.violation('C11', mon, f'{cname}.__init__/legal-refused/{form}', f'{str(exc)[:120]}', spec=repr(spec), values=list(vshape), shapes=[list(x) for x in shapes])
            continue
        except Exception as exc:  # noqa: BLE001
            LOG.evaluated(mon)
            if legal or not isinstance(exc, (TypeError,)):
                LOG.violation('C11', mon, f'{cname}.__init__/raises-{type(exc).__name__}/{form}', f'{str(exc)[:120]}', spec=repr(spec), values=list(vshape), shapes=[list(x) for x in shapes])
            continue
        LOG.evaluated(mon)
        LOG.count('C11.construct', f'{cname}:accepted')
        if not legal:
            LOG.violation('C11', mon, f'{cname}.__init__/illegal-accepted/{form}/{"shape-changing" if outcome == "ok" else "incompatible"}',
                          'specification that cannot apply (or changes a leaf shape, for the strict variant) accepted',
                          spec=repr(spec), values=list(vshape), shapes=[list(x) for x in shapes], out=dense.struct_str(op.out_structure()))
            continue
        x = gen.rand_input(rng, s)
        op.mv(x)                                          # monitored by the reference-model monitor
        op(x)                                             # monitored: op(x) is op.mv(x)
        if rng.integers(4) == 0:
            # values of a wider dtype than the leaves (complex on real data, float64 on float32 with 64-bit mode on)
            wide = values.astype(jnp.complex64) * (1 + 0.5j) if rng.integers(2) or not ctx.x64 else values.astype(jnp.float64) / 3
            try:
                opw = cls(wide, axis_destination=spec, in_structure=s)
                opw(x)                                    # monitored: op(x) is op.mv(x), whatever the value dtype
                LOG.count('C11.wide-values', str(wide.dtype))
            except ValueError:
                pass
        if cls is DiagonalOperator:
            op.I.mv(x)                                    # monitored (reciprocal-or-zero values model)
        LOG.evaluated('C11.out_structure')
        got = [tuple(l.shape) for l in dense.leaves(op.out_structure())]
        if got != [tuple(o) for o in outs]:
            LOG.violation('C11', 'C11.out_structure', f'{cname}.out_structure/{form}', f'{got} instead of {outs}', spec=repr(spec))
        if cls is DiagonalOperator and dense.size_of(s) <= 40:
            def j() -> None:
                m = np.asarray(op.as_matrix(), dtype=np.float64)
                v = np.asarray(values, dtype=np.float64)
                diag = np.concatenate([np.broadcast_to(refmodels.diagonal_layout(v, axes, len(sh))[0], sh).ravel() for sh in shapes])
                LOG.evaluated('C11.as_matrix')
                if m.shape != (diag.size, diag.size) or not np.allclose(m, np.diag(diag)):
                    LOG.violation('C11', 'C11.as_matrix', f'DiagonalOperator.as_matrix/{form}', 'not the diagonal of the broadcast values', spec=repr(spec), values=list(vshape))
            guarded('C11.as_matrix', j)
    LOG.sample({'form': form, 'spec': repr(spec), 'values': list(vshape), 'leaves': [list(x) for x in shapes], 'reference': outcome})


def case_reject(rng: Any, ctx: Ctx, index: int) -> None:
    gen.begin_case(rng)
    dt = gen.case_dtype(rng)
    s = S((2, 3), dt)
    what = gen.pick(rng, ['scalar', 'pytree', 'pytree-dict'])
    LOG.case_key(f'reject:{what}', True)
    cls = gen.pick(rng, [BroadcastDiagonalOperator, DiagonalOperator])
    try:
        if what == 'scalar':
            cls(jnp.asarray(2.0, dtype=dt), in_structure=s)
        elif what == 'pytree':
            cls([jnp.ones(3, dt), jnp.ones(3, dt)], in_structure=[s, s])
        else:
            cls({'a': jnp.ones(3, dt)}, in_structure={'a': s})
    except ValueError:
        LOG.evaluated('C11.reject')
        return
    except Exception as exc:  # noqa: BLE001
        LOG.evaluated('C11.reject')
        LOG.violation('C11', 'C11.reject', f'{cls.__name__}.__init__/{what}/wrong-error-{type(exc).__name__}', str(exc)[:100])
        return
    LOG.evaluated('C11.reject')
    LOG.violation('C11', 'C11.reject', f'{cls.__name__}.__init__/{what}/accepted', 'scalar or pytree-valued diagonal accepted')


def run(ctx: Ctx) -> None:
    from .. import monitors
    monitors._call_prop.value = 'C11'
    enable('mvref')
    drive(ctx, case_reject, 100, 400, stream=1, part='diag')   # small fixed-count part first (never starved by the time cap)
    drive(ctx, case, 4000, 40000, stream=0, part='diag')
