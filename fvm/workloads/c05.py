"""C05 workload: every mv (eager, abstractly traced, jitted; outermost and nested) is observed by the
structure monitor; declared structures of composites are compared with those implied by their parts;
sizes and promoted dtypes are compared with the declared structures."""

from __future__ import annotations

import math
from typing import Any

import jax
import jax.numpy as jnp
import lineax as lx
import numpy as np

from furax._base.core import AbstractLinearOperator

from .. import dense, gen
from ..core import LOG, enable, guarded
from ..workload import Ctx, drive, generate
from .common import rand_operator, struct_kind

ISOP = lambda z: isinstance(z, lx.AbstractLinearOperator)  # noqa: E731


def implied(op: Any) -> tuple[Any, Any] | None:
    """(in, out) structures implied by the parts of a composite, or None for an atom."""
    name = type(op).__name__
    d = getattr(op, '__dict__', {})
    if name == 'CompositionOperator':
        return op.operands[-1].in_structure(), op.operands[0].out_structure()
    if name == 'AdditionOperator':
        first = jax.tree.leaves(op.operands, is_leaf=ISOP)[0]
        return first.in_structure(), first.out_structure()
    if name == 'BlockDiagonalOperator':
        return (jax.tree.map(lambda o: o.in_structure(), op.blocks, is_leaf=ISOP),
                jax.tree.map(lambda o: o.out_structure(), op.blocks, is_leaf=ISOP))
    if name == 'BlockRowOperator':
        return (jax.tree.map(lambda o: o.in_structure(), op.blocks, is_leaf=ISOP),
                jax.tree.leaves(op.blocks, is_leaf=ISOP)[0].out_structure())
    if name == 'BlockColumnOperator':
        return (jax.tree.leaves(op.blocks, is_leaf=ISOP)[0].in_structure(),
                jax.tree.map(lambda o: o.out_structure(), op.blocks, is_leaf=ISOP))
    if 'operator' in d and ISOP(op.operator):
        return op.operator.out_structure(), op.operator.in_structure()
    return None


def check_declared(op: Any) -> None:
    mon = 'C05.declared'

    def visit(o: Any) -> None:
        if not type(o).__module__.startswith('furax.'):
            return
        cls = type(o).__name__
        imp = implied(o)
        ins, outs = o.in_structure(), o.out_structure()
        if imp is not None:
            LOG.evaluated(mon)
            LOG.count('C05.declared.class', cls)
            for side, got, exp in (('in_structure', ins, imp[0]), ('out_structure', outs, imp[1])):
                if not dense.struct_eq_loose(got, exp):
                    LOG.violation('C05', mon, f'{cls}.{side}/not-implied-by-parts',
                                  'declared structure differs from the one implied by the parts',
                                  expr=dense.describe(o), got=dense.struct_str(got), expected=dense.struct_str(exp))
        # sizes and promoted dtypes
        LOG.evaluated('C05.sizes')
        for side, st, size, dt in (('in', ins, o.in_size(), o.in_promoted_dtype),
                                   ('out', outs, o.out_size(), o.out_promoted_dtype)):
            ls = dense.leaves(st)
            exp_size = sum(int(math.prod(l.shape)) for l in ls)
            exp_dt = jnp.result_type(*[l.dtype for l in ls]) if ls else None
            if size != exp_size:
                LOG.violation('C05', 'C05.sizes', f'{cls}.{side}_size', f'{size} != {exp_size}', expr=dense.describe(o))
            if exp_dt is not None and np.dtype(dt) != np.dtype(exp_dt):
                LOG.violation('C05', 'C05.sizes', f'{cls}.{side}_promoted_dtype', f'{dt} != {exp_dt}',
                              expr=dense.describe(o))

    dense.walk(op, visit)


def mixed_stokes_operator(rng: Any) -> tuple[Any, Any]:
    """A Stokes container whose components have DIFFERENT dtypes (a legal pytree) under operators that act component by
    component: every component keeps its own dtype."""
    import jax.numpy as jnp
    from furax._base.core import HomothetyOperator, IdentityOperator
    from furax.operators.hwp import HWPOperator
    gen.begin_case(rng)
    cls = gen.pick(rng, gen.STOKES[1:])
    shape = gen.pick(rng, [(3,), (2, 3), (4,)])
    narrow, wide = (np.float32, np.float64) if gen.X64 else (np.float16, np.float32)
    comps = [gen.S(shape, narrow if rng.integers(2) else wide) for _ in cls.stokes]
    if len({np.dtype(c.dtype) for c in comps}) == 1:
        comps[0] = gen.S(shape, wide if np.dtype(comps[0].dtype) == np.dtype(narrow) else narrow)
    s = cls(*comps)
    kind = gen.pick(rng, ['hwp', 'hwp', 'hwp@index', 'scalar@hwp', 'identity', 'index'])
    if kind == 'hwp':
        op: Any = HWPOperator(s)
    elif kind == 'hwp@index':
        ix = gen.a_index(rng, s)
        op = HWPOperator(ix.out_structure()) @ ix if ix is not None and gen.is_stokes(ix.out_structure()) else HWPOperator(s)
    elif kind == 'scalar@hwp':
        op = HomothetyOperator(2.0, s) @ HWPOperator(s)
    elif kind == 'identity':
        op = IdentityOperator(s)
    else:
        op = gen.a_index(rng, s) or HWPOperator(s)
    LOG.count('C05.mixed-stokes', kind)
    return s, op


def case(rng: Any, ctx: Ctx, index: int) -> None:
    if index % 20 == 19:
        s, op = generate(lambda: mixed_stokes_operator(rng))
    else:
        s, op = rand_operator(rng, ctx, atoms=0.35, lazy_inverse=bool(rng.integers(4) == 0), index=index)
    override = type(op).out_structure is not AbstractLinearOperator.out_structure
    dts = sorted({np.dtype(l.dtype).name for l in dense.leaves(s)})
    LOG.case_key(f'{dense.skeleton(op)}|{"+".join(dts)}|x64={ctx.x64}|{struct_kind(s)}', override)
    x = gen.rand_input(rng, s)
    y = op.mv(x)                                            # monitored, eager, all nested calls
    jax.eval_shape(lambda v: op.mv(v), s)                   # monitored, abstract tracers
    if rng.integers(3) == 0 and 'InverseOperator' not in dense.class_names(op):
        jax.jit(lambda v: op.mv(v))(x)                      # monitored, jit tracers
    guarded('C05.declared', lambda: check_declared(op))
    for variant in ('T', 'reduce', 'I'):
        if variant == 'T' and 'InverseOperator' not in dense.class_names(op):
            v = op.T
        elif variant == 'reduce':
            v = op.reduce()
        elif variant == 'I' and dense.struct_eq(op.in_structure(), op.out_structure()) and rng.integers(3) == 0 \
                and type(op).__name__ in ('DiagonalOperator', 'HomothetyOperator', 'BlockDiagonalOperator', 'QURotationOperator',
                                          'IdentityOperator') \
                and dense.class_names(op) <= {'DiagonalOperator', 'HomothetyOperator', 'BlockDiagonalOperator',
                                              'QURotationOperator', 'IdentityOperator'}:
            # closed-form inverses only: a solver-based inverse hands a copy of the operator to lineax, which strips
            # the weak type of scalar factors such as the 1/3 of `A / 3` (DESIGN §7.2)
            v = op.I
        else:
            continue
        LOG.count('C05.variant', variant)
        xv = gen.rand_input(rng, v.in_structure())
        v.mv(xv)                                            # monitored
        guarded('C05.declared', lambda v=v: check_declared(v))
        exp = (op.out_structure(), op.in_structure()) if variant == 'T' else (op.in_structure(), op.out_structure())
        LOG.evaluated('C05.variant')
        if not (dense.struct_eq_loose(v.in_structure(), exp[0]) and dense.struct_eq_loose(v.out_structure(), exp[1])):
            LOG.violation('C05', 'C05.variant', f'{type(op).__name__}.{variant}/structures',
                          'structures of the derived operator are not those implied by the operand',
                          expr=dense.describe(op), result=dense.describe(v))
    LOG.sample({'expr': dense.describe(op), 'out': dense.struct_str(dense.struct_of(y))})


def case_pattern(rng: Any, ctx: Ctx, index: int) -> None:
    """Documented patterns (and near misses) in short contexts: the reduced operator must declare, and return, the
    structures of the unreduced expression."""
    from furax._base.core import CompositionOperator

    from .. import patterns
    gen.begin_case(rng)
    names = sorted(patterns.PATTERNS)
    rr = ([('blocks', f) for f in range(4)] + [(n, None) for n in names if n not in ('blocks', 'nearmiss')]
          + [('nearmiss', f) for f in range(patterns.N_NEARMISS)])      # documented patterns first: every rule fires early in every shard
    name, form = rr[(index // max(1, ctx.nshards)) % len(rr)]
    if name == 'blocks':
        tag, seg = patterns.p_blocks(rng, form)
    elif name == 'nearmiss':
        tag, seg = patterns.p_nearmiss(rng, form)
    else:
        tag, seg = patterns.PATTERNS[name](rng)
    out = patterns.embed(rng, [seg], int(rng.integers(0, 2)), 0, int(rng.integers(0, 2)), scalars=int(rng.integers(0, 2)))
    if out is None:
        return
    ops, _ = out
    if len(ops) < 2 or any(dense.size_of(o.out_structure()) > 48 for o in ops):
        return
    e = CompositionOperator(list(ops))
    if gen.well_typed(e):
        return
    LOG.case_key(f'pattern:{tag}:x64={ctx.x64}', True)
    LOG.count('C05.pattern', tag.split('/')[0])
    x = gen.rand_input(rng, e.in_structure())
    y = e.mv(x)                                            # monitored
    r = e.reduce()
    try:
        yr = r.mv(x)                                       # monitored: the reduced operator on the same input
    except Exception as exc:  # noqa: BLE001 - the unreduced expression accepts this input, the reduced one does not
        LOG.evaluated('C05.variant')
        LOG.violation('C05', 'C05.variant', f'{tag.split("/")[0]}.reduce/result-rejects-the-input',
                      f'the reduced operator cannot be applied to an input of the declared structure: {type(exc).__name__}: {str(exc)[:100]}',
                      expr=dense.describe(e), result=dense.describe(r))
        return
    guarded('C05.declared', lambda: check_declared(r))
    LOG.evaluated('C05.variant')
    if not (dense.struct_eq_loose(r.in_structure(), e.in_structure()) and dense.struct_eq_loose(r.out_structure(), e.out_structure())
            and dense.struct_eq_loose(dense.struct_of(yr), dense.struct_of(y))):
        LOG.violation('C05', 'C05.variant', f'{tag.split("/")[0]}.reduce/structures',
                      'the reduced operator declares or returns other structures than the unreduced expression',
                      expr=dense.describe(e), result=dense.describe(r), got=dense.struct_str(dense.struct_of(yr)), expected=dense.struct_str(dense.struct_of(y)))


def case_mix(rng: Any, ctx: Ctx, index: int) -> None:
    if index % 5 == 4:
        case_pattern(rng, ctx, index // 5)
    else:
        case(rng, ctx, index - index // 5)


def run(ctx: Ctx) -> None:
    enable('structure')
    drive(ctx, case_mix, 2000, 20000)
