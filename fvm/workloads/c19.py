"""C19 workload: configuration scoping, restore, capture and isolation.

History + executable model: every ENTER uses unique values (a solver with a unique ``max_steps``,
a unique callback closure, a unique options key), so a READ identifies the ENTER it observes.  The
model is a stack of dictionaries per context; after every event the real ``Config.instance()`` must
equal the model top field by field (identity for solver and callback objects)."""

from __future__ import annotations

import asyncio
import contextvars
import itertools
import sys
import threading
import time
from dataclasses import fields
from typing import Any

import jax
import jax.numpy as jnp
import lineax as lx
import numpy as np

from furax import Config
from furax._base.blocks import BlockDiagonalOperator
from furax._base import config as config_module
from furax._base.core import InverseOperator
from furax._base.diagonal import DiagonalOperator

from .. import gen
from ..core import LOG
from ..workload import Ctx, drive

_uid = itertools.count(1000)
_alt = itertools.count()
SHARED_OPERAND: Any = None
_uid_lock = threading.Lock()
DEFAULT = Config.instance()
FIELDS = [f.name for f in fields(DEFAULT)]


def uid() -> int:
    with _uid_lock:
        return next(_uid)


class Boom(Exception):
    pass


def fresh_settings(rng: Any, fired: list[tuple[int, int]] | None = None, block_preconditioner: bool = False) -> dict[str, Any]:
    """A random non-empty subset of the four settings, each with a unique, recognisable value."""
    out: dict[str, Any] = {}
    names = [n for n in ('solver', 'solver_throw', 'solver_options', 'solver_callback') if rng.integers(2)]
    if not names:
        names = ['solver']
    if rng.integers(4) == 0:
        names = ['solver_callback']      # blocks that override the callback only
    i = uid()
    for n in names:
        if n == 'solver':
            out[n] = lx.CG(rtol=1e-6, atol=1e-6, max_steps=i)
        elif n == 'solver_throw':
            out[n] = bool(i % 2)
        elif n == 'solver_options' and block_preconditioner and rng.integers(3) == 0:
            # a block-diagonal preconditioner with the layout of the operators inverted by the 'create-blockdiag' event
            out[n] = {'preconditioner': BlockDiagonalOperator([tiny_operator(), tiny_operator()]), f'key{i}': i}
        elif n == 'solver_options':
            out[n] = {f'key{i}': i}
        else:
            def cb(solution: Any, _i: int = i) -> None:
                if fired is not None:
                    fired.append((_i, int(solution.stats['max_steps'])))
            cb.uid = i  # type: ignore[attr-defined]
            out[n] = cb
    return out


def snap(kw: dict[str, Any]) -> dict[str, Any]:
    """The model keeps its OWN copy of dictionary-valued settings: a library that edits the user's dictionary in place must not
    edit the model with it."""
    return {k: (dict(v) if isinstance(v, dict) else v) for k, v in kw.items()}


def same_value(got: Any, exp: Any) -> bool:
    if isinstance(got, dict) and isinstance(exp, dict):
        return got.keys() == exp.keys() and all(got[k] is exp[k] or (not hasattr(got[k], 'mv') and got[k] == exp[k]) for k in got)
    return bool(got == exp)


def model_default() -> dict[str, Any]:
    return {n: getattr(DEFAULT, n) for n in FIELDS}


def compare(mon: str, where: str, model_top: dict[str, Any], trace: list[str], who: str = '') -> bool:
    """Config.instance() must equal the model top, field by field."""
    real = Config.instance()
    LOG.evaluated(mon)
    for n in FIELDS:
        got, exp = getattr(real, n), model_top[n]
        same = (got is exp) if n in ('solver', 'solver_callback') else same_value(got, exp)
        if not same:
            LOG.violation('C19', mon, f'{where}/{n}', f'active {n} is {_d(got)}, the model says {_d(exp)} {who}', history=' '.join(trace[-14:]))
            return False
    return True


def _d(v: Any) -> str:
    if hasattr(v, 'uid'):
        return f'callback#{v.uid}'
    if isinstance(v, lx.CG):
        return f'CG(max_steps={v.max_steps})'
    return repr(v)[:60]


import equinox as _eqx

_shared_jit = _eqx.filter_jit(lambda o, v: o.mv(v))


def tiny_operator(composite: bool = False) -> Any:
    d = DiagonalOperator(jnp.asarray([2.0, 4.0], dtype=jnp.float32), in_structure=jax.ShapeDtypeStruct((2,), jnp.float32))
    if composite and next(_alt) % 2:
        # a composite of two dense factors (no closed-form inverse for either): a @ b = diag(2, 4)
        from furax._base.dense import DenseBlockDiagonalOperator
        st = jax.ShapeDtypeStruct((2,), jnp.float32)
        a = DenseBlockDiagonalOperator(jnp.asarray([[2.0, 0.0], [0.0, 2.0]], dtype=jnp.float32), st, 'ij,j->i')
        b = DenseBlockDiagonalOperator(jnp.asarray([[1.0, 0.0], [0.0, 2.0]], dtype=jnp.float32), st, 'ij,j->i')
        return a @ b
    if composite:
        # a composite operand: its reduce() returns a new object (sqrt(d) @ sqrt(d) = d)
        r = DiagonalOperator(jnp.sqrt(jnp.asarray([2.0, 4.0], dtype=jnp.float32)), in_structure=jax.ShapeDtypeStruct((2,), jnp.float32))
        return r @ r
    return d


# ---- (a) random well-nested histories in one context -------------------------------------------------


def run_history(rng: Any, mon: str, max_depth: int, length: int, apply_budget: list[int], trace: list[str],
                stack: list[dict[str, Any]], fired: list[tuple[int, int]], depth: int = 0,
                outer: list[tuple[Any, dict[str, Any]]] | None = None, outer_prebuilt: list[Any] | None = None) -> None:
    """Executes a random sequence of events at the current nesting level (recursing into with-blocks).
    Inverses created at enclosing levels stay usable (reduced / applied) inside the nested blocks."""
    n = int(rng.integers(1, length + 1))
    inverses: list[tuple[Any, dict[str, Any]]] = list(outer or [])
    prebuilt: list[tuple[Config, dict[str, Any]]] = outer_prebuilt if outer_prebuilt is not None else []   # shared with nested levels
    for _ in range(n):
        ev = gen.pick(rng, ['enter', 'enter', 'read', 'create', 'apply', 'raise-inside', 'reduce-inverse', 'prebuild', 'enter-prebuilt', 'create-blockdiag'])
        if ev == 'create-blockdiag':
            # taking the inverse of a block-diagonal operator (one solver-based inverse per block) is a pure read of the configuration
            trace.append('CREATE-BLOCKDIAG')
            bd = BlockDiagonalOperator([SHARED_OPERAND, SHARED_OPERAND] if rng.integers(2) else [SHARED_OPERAND, tiny_operator()])
            binv = bd.I
            LOG.count('C19.create', 'blockdiag' + ('+block-preconditioner' if 'preconditioner' in stack[-1]['solver_options'] else ''))
            compare(mon, 'create-blockdiag-inverse', stack[-1], trace)
            top = stack[-1]
            LOG.evaluated(mon)
            for blk in jax.tree.leaves(binv.blocks, is_leaf=lambda o: hasattr(o, 'mv')):
                if type(blk).__name__ == 'InverseOperator':
                    for f in ('solver', 'solver_throw', 'solver_callback'):
                        got = getattr(blk.config, f)
                        if not ((got is top[f]) if f in ('solver', 'solver_callback') else got == top[f]):
                            LOG.violation('C19', mon, f'create-blockdiag-inverse/captured-{f}', f'a block inverse captured {_d(got)}, active {_d(top[f])}',
                                          history=' '.join(trace[-14:]))
                            break
            continue
        if ev == 'prebuild':
            # a Config object built now and entered later: its settings are those of the construction point
            kw = fresh_settings(rng, fired, block_preconditioner=True)
            prebuilt.append((Config(**kw), {**stack[-1], **snap(kw)}))
            trace.append(f'PREBUILD({",".join(sorted(kw))})')
            continue
        if ev == 'enter-prebuilt':
            if not prebuilt or depth >= max_depth:
                continue
            cfg, top_at_construction = prebuilt.pop(int(rng.integers(len(prebuilt))))
            trace.append(f'ENTER-PREBUILT{depth + 1}')
            with cfg:
                stack.append(top_at_construction)
                compare(mon, 'enter-prebuilt', stack[-1], trace)
                run_history(rng, mon, max_depth, max(1, length // 2), apply_budget, trace, stack, fired, depth + 1, inverses, prebuilt)
                trace.append(f'EXIT{depth + 1}')
            stack.pop()
            compare(mon, 'exit-prebuilt', stack[-1], trace)
            continue
        if ev in ('enter', 'raise-inside') and depth < max_depth:
            kw = fresh_settings(rng, fired, block_preconditioner=True)
            new_top = {**stack[-1], **snap(kw)}
            boom = ev == 'raise-inside'
            trace.append(f'ENTER{depth + 1}({",".join(sorted(kw))})')
            try:
                with Config(**kw) as c:
                    stack.append(new_top)
                    ok = compare(mon, 'enter', stack[-1], trace)
                    LOG.evaluated(mon)
                    if ok and any(getattr(c, f) is not stack[-1][f] and getattr(c, f) != stack[-1][f] for f in FIELDS):
                        LOG.violation('C19', mon, 'enter/as-value', '`with Config(...) as c` did not return the active state', history=' '.join(trace[-14:]))
                    run_history(rng, mon, max_depth, max(1, length // 2), apply_budget, trace, stack, fired, depth + 1, inverses, prebuilt)
                    if boom:
                        trace.append(f'RAISE{depth + 1}')
                        raise Boom()
                    trace.append(f'EXIT{depth + 1}')
            except Boom:
                trace.append(f'CAUGHT{depth}')
            finally:
                stack.pop()
            compare(mon, 'exit-by-exception' if boom else 'exit', stack[-1], trace)
        elif ev == 'read':
            trace.append('READ')
            compare(mon, 'read', stack[-1], trace)
        elif ev == 'create':
            trace.append('CREATE')
            if rng.integers(3) == 0:
                inv = SHARED_OPERAND.I            # the same operand object inverted again and again through the property
                LOG.count('C19.create', 'shared-operand.I')
            else:
                inv = InverseOperator(tiny_operator(composite=bool(rng.integers(2))))
            LOG.evaluated(mon)
            top = stack[-1]
            for f in FIELDS:
                got = getattr(inv.config, f)
                if not ((got is top[f]) if f in ('solver', 'solver_callback') else same_value(got, top[f])):
                    LOG.violation('C19', mon, f'create-inverse/captured-{f}', f'captured {_d(got)}, active at creation {_d(top[f])}', history=' '.join(trace[-14:]))
                    break
            if 'preconditioner' not in top['solver_options']:      # (a block preconditioner does not fit the single operands applied later)
                inverses.append((inv, dict(top)))
        elif ev == 'reduce-inverse' and inverses:
            # reducing a lazy inverse (alone or inside a chain) under another configuration must not change the
            # configuration it captured when it was created
            k = int(rng.integers(len(inverses)))
            inv, at_creation = inverses[k]
            trace.append('REDUCE-INVERSE')
            form = int(rng.integers(4))
            inner = getattr(inv, 'operator', None)
            if form == 3 and type(inv).__name__ == 'InverseOperator':
                # arithmetic on an inverse (scaling, negation, sums) must keep the inverse object and its configuration
                red = gen.pick(rng, [lambda: 2.0 * inv, lambda: inv * 0.5, lambda: inv / 4, lambda: -inv, lambda: tiny_operator() - inv,
                                     lambda: (3 * inv).reduce()])()
                LOG.count('C19.reduce', 'arithmetic-on-inverse')
            elif form == 2 and type(inner).__name__ == 'CompositionOperator':
                # the inverse of a composite next to one of the composite's own factor OBJECTS (either side)
                red = (inv @ inner.operands[0]).reduce() if rng.integers(2) else (inner.operands[-1] @ inv).reduce()
                LOG.count('C19.reduce', 'next-to-own-factor')
            else:
                red = (inv @ tiny_operator()).reduce() if form in (1, 2) else inv.reduce()
            found = []
            from .. import dense as _dense
            _dense.walk(red, lambda o: found.append(o) if type(o).__name__ == 'InverseOperator' else None)
            LOG.evaluated(mon)
            for o in found:
                for f in FIELDS:
                    got = getattr(o.config, f)
                    if not ((got is at_creation[f]) if f in ('solver', 'solver_callback') else same_value(got, at_creation[f])):
                        LOG.violation('C19', mon, f'reduce-inverse/captured-{f}', f'after reduce() the inverse holds {_d(got)}, captured at creation {_d(at_creation[f])}',
                                      history=' '.join(trace[-14:]))
                        break
                inverses[k] = (o, at_creation)
        elif ev == 'apply' and inverses and apply_budget[0] > 0 and rng.integers(3) == 0 and len(inverses) >= 2:
            # two inverses through ONE shared filtering jit (the operator is an argument: its captured configuration is
            # part of the static data the jit cache is keyed on)
            cands = [(i, c) for i, c in inverses if hasattr(c['solver_callback'], 'uid')]
            if len(cands) < 2:
                continue
            apply_budget[0] -= 1
            trace.append('APPLY-SHARED-JIT')
            for inv, at_creation in (cands[0], cands[-1]):
                cb = at_creation['solver_callback']
                before = len(fired)
                _shared_jit(inv, jnp.asarray([2.0, 4.0], dtype=jnp.float32))
                jax.effects_barrier()
                LOG.evaluated('C19.apply')
                new = fired[before:]
                if not new or any(i != cb.uid for i, _ in new):
                    LOG.violation('C19', 'C19.apply', 'apply-inverse/shared-jit/wrong-callback',
                                  f'callback(s) {[i for i, _ in new]} fired, the inverse captured callback#{cb.uid}', history=' '.join(trace[-14:]))
                elif any(ms != at_creation['solver'].max_steps for _, ms in new):
                    LOG.violation('C19', 'C19.apply', 'apply-inverse/shared-jit/wrong-solver',
                                  f'max_steps {[ms for _, ms in new]} used, captured {at_creation["solver"].max_steps}', history=' '.join(trace[-14:]))
        elif ev == 'apply' and inverses and apply_budget[0] > 0:
            inv, at_creation = inverses[int(rng.integers(len(inverses)))]
            cb = at_creation['solver_callback']
            if not hasattr(cb, 'uid'):
                continue  # created under the default callback (it only prints): nothing to observe
            apply_budget[0] -= 1
            trace.append('APPLY')
            before = len(fired)
            y = inv.mv(jnp.asarray([2.0, 4.0], dtype=jnp.float32))
            jax.effects_barrier()
            y = np.asarray(y)
            LOG.evaluated('C19.apply')
            new = fired[before:]
            want_steps = at_creation['solver'].max_steps
            if not new:
                LOG.violation('C19', 'C19.apply', 'apply-inverse/callback-not-fired', f'callback#{cb.uid} captured at creation did not fire',
                              history=' '.join(trace[-14:]))
            elif any(i != cb.uid for i, _ in new):
                LOG.violation('C19', 'C19.apply', 'apply-inverse/wrong-callback', f'callback(s) {[i for i, _ in new]} fired, captured callback#{cb.uid}',
                              history=' '.join(trace[-14:]))
            elif any(ms != want_steps for _, ms in new):
                LOG.violation('C19', 'C19.apply', 'apply-inverse/wrong-solver', f'solver max_steps {[ms for _, ms in new]} used, captured {want_steps}',
                              history=' '.join(trace[-14:]))
            if not np.allclose(y, [1.0, 1.0], atol=1e-4):
                LOG.violation('C19', 'C19.apply', 'apply-inverse/solution', f'{y}', history=' '.join(trace[-14:]))
    # inverses created at this level keep their configuration after the enclosing blocks are left:
    # applied by the caller level through the shared list
    if depth > 0 and inverses and apply_budget[0] > 0 and rng.integers(2):
        _late.append(inverses[-1])


_late: list[tuple[Any, dict[str, Any]]] = []


def case_history(rng: Any, ctx: Ctx, index: int) -> None:
    mon = 'C19.history'
    trace: list[str] = []
    fired: list[tuple[int, int]] = []
    stack = [model_default()]
    _late.clear()
    apply_budget = [2 if index % 6 == 0 else 0]
    if apply_budget[0]:
        # histories that apply inverses run inside an outer block with a recognisable solver and callback,
        # so that every inverse created anywhere in the history inherits observable settings
        i = uid()

        def cb0(solution: Any, _i: int = i) -> None:
            fired.append((_i, int(solution.stats['max_steps'])))
        cb0.uid = i  # type: ignore[attr-defined]
        kw0 = {'solver': lx.CG(rtol=1e-6, atol=1e-6, max_steps=i), 'solver_callback': cb0}
        trace.append('ENTER0(solver,solver_callback)')
        with Config(**kw0):
            stack.append({**stack[-1], **kw0})
            run_history(rng, mon, max_depth=6 if ctx.thorough else 4, length=10 if ctx.thorough else 6,
                        apply_budget=apply_budget, trace=trace, stack=stack, fired=fired)
            stack.pop()
        trace.append('EXIT0')
    else:
        run_history(rng, mon, max_depth=6 if ctx.thorough else 4, length=10 if ctx.thorough else 6,
                    apply_budget=apply_budget, trace=trace, stack=stack, fired=fired)
    # an inverse created inside blocks that are now closed still uses the configuration of its creation
    if _late and apply_budget[0] > 0:
        inv, at_creation = _late[-1]
        cb = at_creation['solver_callback']
        if hasattr(cb, 'uid'):
            trace.append('APPLY-AFTER-EXIT')
            before = len(fired)
            inv.mv(jnp.asarray([2.0, 4.0], dtype=jnp.float32))
            jax.effects_barrier()
            LOG.evaluated('C19.apply')
            new = fired[before:]
            if not new or any(i != cb.uid for i, _ in new) or any(ms != at_creation['solver'].max_steps for _, ms in new):
                LOG.violation('C19', 'C19.apply', 'apply-inverse/after-exit', f'fired {new}, captured callback#{cb.uid} max_steps {at_creation["solver"].max_steps}',
                              history=' '.join(trace[-14:]))
    LOG.evaluated(mon)
    real = Config.instance()
    if real is not DEFAULT:
        LOG.violation('C19', mon, 'final/not-default', 'after the history the active configuration is not the default state', history=' '.join(trace[-14:]))
        config_module._config_var.set(DEFAULT)
    shape = ' '.join(t.split('(')[0] for t in trace)
    import re as _re
    depth = max([int(m.group(1)) + (1 if trace and trace[0].startswith('ENTER0') else 0)
                 for t in trace for m in [_re.match(r'ENTER(?:-PREBUILT)?(\d+)', t)] if m] + [0])
    LOG.case_key('history:' + shape, depth >= 2)
    LOG.count('C19.history.depth', depth)
    LOG.sample({'kind': 'history', 'events': trace[:40]})


# ---- (b) exhaustive interleavings of small per-thread programs ----------------------------------------


def thread_program(tid: int, steps: list[str], go: threading.Semaphore, done: threading.Semaphore, sched: list[int],
                   rng_seed: int, errors: list[str]) -> None:
    rng = np.random.default_rng(rng_seed)
    stack = [model_default()]
    entered: list[Config] = []
    mon = 'C19.schedule'
    trace: list[str] = []
    for k, step in enumerate(steps):
        go.acquire()
        try:
            trace.append(f'T{tid}:{step}')
            if step == 'enter':
                kw = fresh_settings(rng)
                c = Config(**kw)
                c.__enter__()
                entered.append(c)
                stack.append({**stack[-1], **snap(kw)})
            elif step == 'exit':
                c = entered.pop()
                c.__exit__(None, None, None)
                stack.pop()
            elif step == 'create':
                inv = InverseOperator(tiny_operator())
                if any(getattr(inv.config, f) is not stack[-1][f] and getattr(inv.config, f) != stack[-1][f] for f in FIELDS):
                    LOG.violation('C19', mon, 'create-inverse/foreign-config', f'thread {tid} captured a configuration it never entered',
                                  schedule=''.join(map(str, sched)))
            compare(mon, f'thread/{step}', stack[-1], trace, who=f'(thread {tid}, schedule {"".join(map(str, sched))})')
        except Exception as exc:  # noqa: BLE001
            errors.append(f'T{tid} {step}: {type(exc).__name__}: {exc}')
        finally:
            done.release()


PROGRAMS = {2: ['enter', 'read', 'create', 'exit'], 3: ['enter', 'read', 'exit']}


def run_schedule(order: tuple[int, ...], nthreads: int, seed: int) -> None:
    steps = PROGRAMS[nthreads]
    go = [threading.Semaphore(0) for _ in range(nthreads)]
    done = threading.Semaphore(0)
    errors: list[str] = []
    threads = [threading.Thread(target=thread_program, args=(t, steps, go[t], done, list(order), seed * 10 + t, errors)) for t in range(nthreads)]
    for t in threads:
        t.start()
    main_trace = [f'schedule {"".join(map(str, order))}']
    for tid in order:
        go[tid].release()
        done.acquire()
        # the scheduling (main) context must never see what the threads do
        compare('C19.schedule', 'main-context', model_default(), main_trace)
    for t in threads:
        t.join()
    for e in errors:
        LOG.violation('C19', 'C19.schedule', 'thread/raised', e, schedule=''.join(map(str, order)))
    LOG.count('C19.schedules', f'{nthreads}-threads')
    LOG.case_key(f'schedule:{nthreads}:{"".join(map(str, order))}', True)


def all_orders(nthreads: int, nsteps: int) -> list[tuple[int, ...]]:
    base = [t for t in range(nthreads) for _ in range(nsteps)]
    return sorted(set(itertools.permutations(base)))


_orders: dict[int, list[tuple[int, ...]]] = {}


def case_schedule2(rng: Any, ctx: Ctx, index: int) -> None:
    if 2 not in _orders:
        _orders[2] = all_orders(2, 4)
    run_schedule(_orders[2][index], 2, index)


def case_schedule3(rng: Any, ctx: Ctx, index: int) -> None:
    if 3 not in _orders:
        _orders[3] = all_orders(3, 3)
    run_schedule(_orders[3][index], 3, index)


# ---- (c) free-running threads with yield injection in config.py ---------------------------------------

TOOL = 4


def install_yield_injection(rng_seed: int) -> Any:
    mon = sys.monitoring
    r = np.random.default_rng(rng_seed)
    lock = threading.Lock()
    count = [0]

    def on_line(code: Any, line: int) -> Any:
        with lock:
            count[0] += 1
            y = r.random() < 0.5
        if y:
            time.sleep(0)
        return None

    try:
        mon.use_tool_id(TOOL, 'fvm-yield')
    except ValueError:
        pass
    mon.register_callback(TOOL, mon.events.LINE, on_line)
    codes = [f.__code__ for f in (Config.__init__, Config.__enter__, Config.__exit__, Config.instance.__func__)]
    for c in codes:
        mon.set_local_events(TOOL, c, mon.events.LINE)

    def uninstall() -> int:
        for c in codes:
            mon.set_local_events(TOOL, c, 0)
        mon.register_callback(TOOL, mon.events.LINE, None)
        mon.free_tool_id(TOOL)
        return count[0]
    return uninstall


def case_free_threads(rng: Any, ctx: Ctx, index: int) -> None:
    nthreads = int(rng.integers(2, 6))
    old = sys.getswitchinterval()
    sys.setswitchinterval(1e-6)
    uninstall = install_yield_injection(int(rng.integers(1 << 30)))
    errors: list[str] = []
    seeds = [int(rng.integers(1 << 30)) for _ in range(nthreads)]

    def worker(seed: int) -> None:
        r = np.random.default_rng(seed)
        try:
            for _ in range(6):
                trace: list[str] = []
                stack = [model_default()]
                run_history(r, 'C19.threads', 3, 5, [0], trace, stack, [])
                compare('C19.threads', 'thread/final', model_default(), trace)
        except Exception as exc:  # noqa: BLE001
            errors.append(f'{type(exc).__name__}: {exc}')

    try:
        ts = [threading.Thread(target=worker, args=(s,)) for s in seeds]
        for t in ts:
            t.start()
        for t in ts:
            t.join()
    finally:
        injected = uninstall()
        sys.setswitchinterval(old)
    LOG.count('C19.yield-injections', 'line-events', injected)
    for e in errors:
        LOG.violation('C19', 'C19.threads', 'thread/raised', e)
    compare('C19.threads', 'main-context', model_default(), [f'{nthreads} free threads'])
    LOG.case_key(f'free-threads:{nthreads}', True)


# ---- (d) copied contexts and asyncio tasks --------------------------------------------------------------


def case_contexts(rng: Any, ctx: Ctx, index: int) -> None:
    mon = 'C19.contexts'
    trace: list[str] = []
    kw = fresh_settings(rng)
    parent_top = {**model_default(), **snap(kw)}
    with Config(**kw):
        compare(mon, 'parent/enter', parent_top, trace)

        def child() -> None:
            # starts from a copy of the parent's context
            compare(mon, 'child/inherits', parent_top, trace + ['CHILD'])
            kw2 = fresh_settings(rng)
            with Config(**kw2):
                compare(mon, 'child/enter', {**parent_top, **kw2}, trace + ['CHILD', 'ENTER'])
            compare(mon, 'child/exit', parent_top, trace + ['CHILD', 'EXIT'])
            leak = Config(**fresh_settings(rng))
            leak.__enter__()          # deliberately left open inside the child context

        contextvars.copy_context().run(child)
        compare(mon, 'parent/after-child', parent_top, trace + ['AFTER-CHILD'])

        async def task(name: int, delay: int) -> None:
            kw3 = fresh_settings(rng)
            top = {**parent_top, **kw3}
            with Config(**kw3):
                for _ in range(delay):
                    await asyncio.sleep(0)
                    compare(mon, 'task/read', top, trace + [f'TASK{name}'])
            compare(mon, 'task/exit', parent_top, trace + [f'TASK{name}', 'EXIT'])

        async def main() -> None:
            await asyncio.gather(*[task(i, int(rng.integers(1, 4))) for i in range(int(rng.integers(2, 5)))])
            compare(mon, 'parent/after-tasks', parent_top, trace + ['AFTER-TASKS'])

        asyncio.run(main())
    compare(mon, 'parent/exit', model_default(), trace + ['EXIT'])
    LOG.case_key(f'contexts:{",".join(sorted(kw))}', True)


def run(ctx: Ctx) -> None:
    global SHARED_OPERAND
    from furax._base.dense import DenseBlockDiagonalOperator
    # same map as tiny_operator() but of a class without closed-form inverse: .I builds a solver-based inverse
    SHARED_OPERAND = DenseBlockDiagonalOperator(jnp.asarray([[2.0, 0.0], [0.0, 4.0]], dtype=jnp.float32), jax.ShapeDtypeStruct((2,), jnp.float32), 'ij,j->i')
    assert type(SHARED_OPERAND.I).__name__ == 'InverseOperator'
    drive(ctx, case_history, 1600, 16000, stream=0, part='history')
    drive(ctx, case_schedule2, 70, 70, stream=1, part='schedules')
    if ctx.thorough or ctx.part == 'schedules':
        drive(ctx, case_schedule3, 1680, 1680, stream=2, part='schedules')
    drive(ctx, case_contexts, 60, 600, stream=4, part='threads')
    drive(ctx, case_free_threads, 30, 300, stream=3, part='threads')
