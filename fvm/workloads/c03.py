"""C03 workload: every operator kind is transposed (and transposed back) under the transpose monitor;
the bilinear identity <A x, y> = <x, A.T y> is also probed on random non-basis vectors."""

from __future__ import annotations

from typing import Any

import numpy as np

import furax

from .. import dense, gen
from ..core import LOG, OracleError, enable, guarded, quiet
from ..workload import Ctx, drive, generate
from .common import case_key, nontrivial_matrix, rand_operator


def bilinear(op: Any, opt: Any, rng: Any) -> None:
    mon = 'C03.bilinear'
    x = gen.rand_input(rng, op.in_structure())
    y = gen.rand_input(rng, op.out_structure())
    ax, aty = op.mv(x), opt.mv(y)
    lhs = float(furax.tree.dot(ax, y))
    rhs = float(furax.tree.dot(x, aty))
    # "input and output structures are swapped" also for what the transpose RETURNS (dtypes included), whenever the operator itself
    # returns what it declares
    if dense.struct_eq_loose(dense.struct_of(ax), op.out_structure()) and not dense.struct_eq_loose(dense.struct_of(aty), op.in_structure()):
        LOG.evaluated(mon)
        LOG.violation('C03', mon, f'{type(op).__name__}.T/returned-structure', 'A.T(y) does not have the structure of the input space of A',
                      expr=dense.describe(op), got=dense.struct_str(dense.struct_of(aty)), expected=dense.struct_str(op.in_structure()))
        return
    tol = dense.tol_for(op, opt) * 50
    LOG.evaluated(mon)
    if not np.isclose(lhs, rhs, rtol=tol, atol=tol * (1 + abs(lhs))):
        LOG.violation('C03', mon, f'{type(op).__name__}.T/bilinear', f'<Ax,y>={lhs!r} but <x,A.T y>={rhs!r}',
                      expr=dense.describe(op))


def integer_operator(rng: Any) -> tuple[Any, Any]:
    """Selecting / packing / broadcasting integer data (the docstrings use int32 operators)."""
    import jax.numpy as jnp

    from furax._base.diagonal import BroadcastDiagonalOperator
    n = int(rng.integers(2, 5))
    s = gen.S((n,) if rng.integers(2) else (2, n), np.int32)
    kind = gen.pick(rng, ['index', 'pack', 'broadcast', 'index-pytree'])
    if kind == 'index':
        op = gen.a_index(rng, s)
    elif kind == 'pack':
        op = gen.a_pack(rng, s)
    elif kind == 'broadcast':
        op = BroadcastDiagonalOperator(jnp.asarray(rng.integers(-3, 4, size=(2, n)), dtype=jnp.int32), axis_destination=(-len(s.shape) - 1, -1), in_structure=s)
    else:
        s = {'b': s, 'a': gen.S(s.shape, np.int32)}
        op = gen.a_index(rng, s)
    return s, op


def case_loop(rng: Any, ctx: Ctx, index: int) -> None:
    """The 'loop over observations' history: operators of one class are built from fresh parameter arrays, transposed, used and
    dropped one after the other in the same process (each one judged like any other case)."""
    import gc
    name = gen.pick(rng, ['QURotationOperator', 'QURotationOperator', 'QURotationTransposeOperator', 'DiagonalOperator', 'IndexOperator',
                          'DenseBlockDiagonalOperator', 'SymmetricBandToeplitzOperator'])
    if name.startswith('QURotation') and rng.integers(2):
        # a tight loop on one structure (nothing else allocated in between but the data): <R x, y> = <x, R.T y> for each rotation
        import jax.numpy as jnp
        from furax.operators.qu_rotations import QURotationOperator
        gen.begin_case(rng)
        cls = gen.pick(rng, gen.STOKES[1:])
        shape = gen.pick(rng, [(5,), (7,), (2, 3)])
        dt = gen.case_dtype(rng)
        s = cls.structure_for(shape, dt)
        tol = (1e-9 if np.dtype(dt).itemsize == 8 else 2e-4)
        worst, nrot = 0.0, int(rng.integers(20, 60))
        with quiet():
            for it in range(nrot):
                rot = QURotationOperator(jnp.asarray(rng.uniform(-np.pi, np.pi, size=shape[-1:]), dtype=dt), s)
                x, y = gen.rand_input(rng, s), gen.rand_input(rng, s)
                lhs = float(furax.tree.dot(rot.mv(x), y))
                rhs = float(furax.tree.dot(x, rot.T.mv(y)))
                worst = max(worst, abs(lhs - rhs) / (1 + abs(lhs)))
                del rot, x, y
                gc.collect()
        LOG.evaluated('C03.bilinear', nrot)
        LOG.count('C03.loop', 'tight-rotation-loop', nrot)
        if worst > tol * 50:
            LOG.violation('C03', 'C03.bilinear', 'QURotationOperator.T/bilinear/successive-operators',
                          f'<Rx,y> and <x,R.T y> differ by {worst:.3g} (relative) for one of {nrot} rotations built, used and dropped in turn')
        return
    for it in range(int(rng.integers(6, 14))):
        op = generate(lambda: gen.operator_of_class(rng, name))
        if op is None:
            continue
        LOG.count('C03.loop', name)
        opt = op.T                   # monitored
        guarded('C03.bilinear', lambda: bilinear(op, opt, rng))
        del op, opt
        if rng.integers(2):
            gc.collect()


def case(rng: Any, ctx: Ctx, index: int) -> None:
    if index % 12 == 10:
        return case_loop(rng, ctx, index)
    if index % 12 == 11:
        s, op = integer_operator(rng)
        if op is None:
            return
        LOG.count('C03.integer-data', type(op).__name__)
    else:
        s, op = rand_operator(rng, ctx, lazy_inverse=False, index=index)
    if 'InverseOperator' in dense.class_names(op):
        return
    opt = op.T          # monitored (and every nested transpose it triggers)
    with quiet():
        try:
            m = dense.matrix(op)
            LOG.case_key(case_key('T', op), nontrivial_matrix(m))
        except OracleError:
            pass
    LOG.sample({'expr': dense.describe(op), 'transpose': dense.describe(opt)})
    optt = opt.T        # monitored: A.T.T denotes A (judged as the adjoint of the adjoint)
    guarded('C03.bilinear', lambda: bilinear(op, opt, rng))
    if rng.integers(4) == 0:
        _ = optt.T
    # symmetric classes must return themselves
    import lineax as lx
    if lx.is_symmetric(op):
        LOG.evaluated('C03.symmetric-self')
        if opt is not op:
            LOG.violation('C03', 'C03.symmetric-self', f'{type(op).__name__}.T/not-self',
                          'operator tagged symmetric but A.T is not A', expr=dense.describe(op))


def run(ctx: Ctx) -> None:
    enable('transpose')
    drive(ctx, case, 1600, 16000)
