"""C09 workload: SymmetricBandToeplitzOperator, all four methods, against the banded product."""

from __future__ import annotations

from typing import Any

import jax
import jax.numpy as jnp
import numpy as np

from furax.operators.toeplitz import SymmetricBandToeplitzOperator as T

from .. import dense, gen, refmodels
from ..core import LOG, enable, guarded
from ..workload import Ctx, drive

METHODS = ['dense', 'direct', 'fft', 'overlap_save']


def case(rng: Any, ctx: Ctx, index: int) -> None:
    big = ctx.thorough
    n = int(gen.pick(rng, [1, 2, 3, 4, 5, 7, 8, 16, 31, 64, 100, 200])) if rng.integers(3) == 0 else int(
        rng.integers(1, 201 if big else 41))
    K = int(rng.integers(1, 41 if big else 13))
    if rng.integers(8) == 0:
        K = n + int(rng.integers(0, 3))  # K >= n on purpose
    dts = [np.float32] + ([np.float64] if ctx.x64 else []) + ([np.float16, jnp.bfloat16] if rng.integers(5) == 0 else [])
    dt = np.dtype(gen.pick(rng, dts))
    # input batch shape (rank <= 3 in total) and band batch shape broadcastable to it
    brank = int(rng.integers(0, 3))
    xbatch = tuple(int(v) for v in rng.integers(1, 4, size=brank))
    forms = [()]
    if brank >= 1:
        forms += [xbatch, (1,) * brank, xbatch[-1:], tuple(1 if rng.integers(2) else d for d in xbatch)]
    bbatch = tuple(gen.pick(rng, forms))
    bdt = np.dtype(np.float32) if dt == np.float64 and rng.integers(3) == 0 else dt      # band values no wider than the data
    band = gen.dy(rng, bbatch + (K,), bdt, lo=-6, hi=6)
    s = gen.S(xbatch + (n,), dt)
    method = gen.pick(rng, METHODS)
    fft_size = None
    fft_form = 'default'
    if method == 'overlap_save' and rng.integers(2):
        fft_form = gen.pick(rng, ['2K-1', '2K', '2K+1', 'pow2', 'random'])
        base = 2 * K - 1
        fft_size = {'2K-1': base, '2K': base + 1, '2K+1': base + 2,
                    'pow2': int(2 ** np.ceil(np.log2(base)) * gen.pick(rng, [1, 2, 4])),
                    'random': base + int(rng.integers(0, 40))}[fft_form]
    key = f'{method}:{"K>n" if K > n else "K<=n"}:fft={fft_form}:band{len(bbatch)}d/x{len(xbatch)}d:{dt.name}'
    LOG.case_key(key, K >= 2)
    mon = 'C09.construct'
    try:
        op = T(band, s, method=method, fft_size=fft_size)
        LOG.evaluated(mon)
    except Exception as exc:  # noqa: BLE001
        LOG.evaluated(mon)
        LOG.violation('C09', mon, f'Toeplitz.__init__/legal-refused/{"batched-band" if bbatch else "flat-band"}/{type(exc).__name__}',
                      f'legal arguments refused: {str(exc)[:120]}', n=n, K=K, fft_size=fft_size, band_shape=list(band.shape), method=method)
        return
    x = gen.rand_input(rng, s, lo=-6, hi=6)
    mode = gen.pick(rng, ['eager', 'eager', 'jit'])
    LOG.count('C09.mode', mode)
    try:
        if mode == 'eager':
            y = op.mv(x)                                   # monitored by the reference-model monitor
        else:
            y = jax.jit(lambda v: op.mv(v))(x)
            def judge_jit() -> None:
                exp = refmodels.ref_toeplitz(op, x)[0]
                LOG.evaluated('C09.jit')
                from ..monitors import mv_tolerance
                ok, err = dense.close(exp, np.asarray(y, dtype=np.float64), mv_tolerance(op, x, y))
                if not ok:
                    LOG.violation('C09', 'C09.jit', f'Toeplitz.mv/jit/{method}', f'jitted result differs from the banded product (rel err {err:.3g})',
                                  n=n, K=K, fft_size=op.fft_size, band_shape=list(band.shape))
            guarded('C09.jit', judge_jit)
    except Exception as exc:  # noqa: BLE001
        LOG.evaluated('C09.apply')
        LOG.violation('C09', 'C09.apply', f'Toeplitz.mv/raises-{type(exc).__name__}/{method}/{dt.name}/x64={ctx.x64}',
                      f'{str(exc)[:160]}', n=n, K=K, fft_size=op.fft_size, band_shape=list(band.shape), mode=mode)
        return
    LOG.evaluated('C09.apply')
    LOG.count('C09.method', method)
    if tuple(y.shape) != tuple(s.shape) or np.dtype(y.dtype) != dt:
        LOG.violation('C09', 'C09.apply', f'Toeplitz.mv/shape-dtype/{method}/{dt.name}',
                      f'output {y.dtype}{list(y.shape)} for input {dt.name}{list(s.shape)}', n=n, K=K, band_shape=list(band.shape))
    # as_matrix: block diagonal of the per-row banded matrices; symmetric
    if n * int(np.prod(xbatch, dtype=int)) <= 64:
        def judge_matrix() -> None:
            m = np.asarray(op.as_matrix(), dtype=np.float64)
            bb = np.broadcast_to(np.asarray(band, dtype=np.float64), xbatch + (K,)).reshape(-1, K)
            blocks = [refmodels.toeplitz_matrix(n, b) for b in bb]
            N = n * len(blocks)
            ref = np.zeros((N, N))
            for i, b in enumerate(blocks):
                ref[i * n:(i + 1) * n, i * n:(i + 1) * n] = b
            LOG.evaluated('C09.as_matrix')
            if m.shape != ref.shape or not np.allclose(m, ref, atol=1e-6):
                LOG.violation('C09', 'C09.as_matrix', f'Toeplitz.as_matrix/{"batched" if xbatch else "flat"}',
                              'as_matrix is not the block-diagonal banded matrix', n=n, K=K, band_shape=list(band.shape), x_shape=list(s.shape))
            if not np.allclose(ref, ref.T) or op.T is not op:
                LOG.violation('C09', 'C09.as_matrix', 'Toeplitz/symmetric', 'T is not symmetric or op.T is not op')
        guarded('C09.as_matrix', judge_matrix)
    LOG.sample({'n': n, 'K': K, 'method': method, 'fft_size': op.fft_size, 'band': list(band.shape), 'x': list(s.shape), 'dtype': dt.name})


def case_reject(rng: Any, ctx: Ctx, index: int) -> None:
    n, K = int(rng.integers(1, 30)), int(rng.integers(1, 10))
    dt = np.float32
    bbatch = gen.pick(rng, [(), (2,), (1,)])
    band = gen.dy(rng, tuple(bbatch) + (K,), dt)
    s = gen.S(((2,) if bbatch else ()) + (n,), dt)
    what = gen.pick(rng, ['method', 'fft-nonoverlap', 'fft-small'])
    LOG.case_key(f'reject:{what}:{"batched" if bbatch else "flat"}', True)
    mon = 'C09.reject'
    try:
        if what == 'method':
            T(band, s, method=gen.pick(rng, ['overlap_add', 'toeplitz', '', 'FFT', 'Dense']))
        elif what == 'fft-nonoverlap':
            T(band, s, method=gen.pick(rng, ['dense', 'direct', 'fft']), fft_size=2 * K + 7)
        else:
            T(band, s, method='overlap_save', fft_size=int(rng.integers(0, 2 * K - 1)))
    except ValueError:
        LOG.evaluated(mon)
        return
    except Exception as exc:  # noqa: BLE001
        LOG.evaluated(mon)
        LOG.violation('C09', mon, f'Toeplitz.__init__/{what}/wrong-error-{type(exc).__name__}', str(exc)[:100])
        return
    LOG.evaluated(mon)
    LOG.violation('C09', mon, f'Toeplitz.__init__/{what}/accepted', 'illegal method or FFT size accepted', K=K)


def case_longkernel(rng: Any, ctx: Ctx, index: int) -> None:
    """Kernels far longer than the input and than any cache-friendly block (K up to 40 000, correlation lengths of real
    time-ordered data): the default FFT size must still be admissible and every method must return T x."""
    K = int(gen.pick(rng, [16385, 32768, 32769, 33000, 40000]))
    n = int(rng.integers(1, 50))
    dt = np.dtype(np.float64 if ctx.x64 and rng.integers(2) else np.float32)
    band = np.zeros(K)
    band[: n + 3] = rng.integers(-6, 7, size=n + 3) / 4
    band[-1] = 0.75
    s = gen.S((n,), dt)
    method = gen.pick(rng, ['overlap_save', 'overlap_save', 'fft'])
    LOG.case_key(f'{method}:K={K}:long-kernel:{dt.name}', True)
    try:
        op = T(jnp.asarray(band, dtype=dt), s, method=method)
        LOG.evaluated('C09.construct')
    except Exception as exc:  # noqa: BLE001
        LOG.evaluated('C09.construct')
        LOG.violation('C09', 'C09.construct', f'Toeplitz.__init__/legal-refused/long-kernel/{type(exc).__name__}', str(exc)[:120], n=n, K=K, method=method)
        return
    x = gen.rand_input(rng, s, lo=-6, hi=6)
    LOG.count('C09.long-kernel', f'{method}:K={K}')
    try:
        op.mv(x)                                           # monitored by the reference-model monitor
        LOG.evaluated('C09.apply')
    except Exception as exc:  # noqa: BLE001
        LOG.evaluated('C09.apply')
        LOG.violation('C09', 'C09.apply', f'Toeplitz.mv/raises-{type(exc).__name__}/{method}/long-kernel', str(exc)[:160], n=n, K=K,
                      fft_size=getattr(op, 'fft_size', None))


def run(ctx: Ctx) -> None:
    enable('mvref')
    drive(ctx, case_longkernel, 8, 48, stream=2, part='apply')
    drive(ctx, case, 1600, 20000, stream=0, part='apply')
    drive(ctx, case_reject, 200, 1000, stream=1, part='reject')
