"""C17 workload: pixel2index against a NumPy row-major reference, world2index against healpy
(ring ordering), coverage maps against numpy.bincount."""

from __future__ import annotations

import itertools
import math
from typing import Any

import healpy as hp
import jax
import jax.numpy as jnp
import numpy as np

from furax.landscapes import HealpixLandscape, StokesLandscape
from furax.samplings import Sampling

from .. import gen
from ..core import LOG, guarded
from ..workload import Ctx, drive


class GridLandscape(StokesLandscape):
    """Concrete landscape for the tests of pixel2index (as the repository's tests do)."""

    def world2pixel(self, theta: Any, phi: Any) -> tuple[Any, ...]:
        return (theta, phi)


def ref_index(pixel_shape: tuple[int, ...], coords: list[np.ndarray], mode: str) -> np.ndarray:
    """Row-major flat index, first coordinate fastest; -1 outside the map."""
    rnd = {'even': np.rint, 'up': lambda v: np.floor(v + 0.5), 'down': lambda v: np.ceil(v - 0.5)}[mode]
    idx = np.zeros(np.shape(coords[0]), dtype=np.int64)
    valid = np.ones(np.shape(coords[0]), dtype=bool)
    stride = 1
    for c, n in zip(coords, pixel_shape):
        i = rnd(np.asarray(c, dtype=np.float64))
        valid &= (i >= 0) & (i < n)
        idx += np.where(valid, i, 0).astype(np.int64) * stride
        stride *= n
    return np.where(valid, idx, -1)


def case_pixel_int(rng: Any, ctx: Ctx, index: int) -> None:
    """Integer-typed pixel coordinates of narrow dtypes on maps with more pixels than the dtype can count: the index is computed
    in a dtype wide enough for N whatever the dtype of the coordinates."""
    nd = int(rng.integers(1, 4))
    shape = tuple(int(v) for v in rng.integers(1, (200, 21, 8)[nd - 1], size=nd))
    land = GridLandscape(pixel_shape=shape[::-1], stokes='I', dtype=np.float32)
    pshape = shape[::-1]
    n = 300
    idt = gen.pick(rng, [np.int8, np.int16, np.uint8, np.int32, 'mixed'])
    coords, cast = [], []
    for k, d in enumerate(pshape):
        dtk = idt if idt != 'mixed' else (np.float32 if k == 0 else np.int16)
        lo = 0 if np.dtype(dtk).kind == 'u' else -2
        hi = min(d + 2, np.iinfo(dtk).max) if np.dtype(dtk).kind in 'iu' else d + 2
        c = rng.integers(lo, max(hi, lo + 1), size=n)
        coords.append(c.astype(np.float64))
        cast.append(c.astype(dtk))
    LOG.case_key(f'pixel2index:{nd}d:integer-coords:{idt if isinstance(idt, str) else np.dtype(idt).name}:{"big" if math.prod(shape) > 127 else "small"}', True)

    def judge() -> None:
        got = np.asarray(land.pixel2index(*[jnp.asarray(c) if rng.integers(2) else c for c in cast]))
        ref = ref_index(pshape, coords, 'even')
        LOG.evaluated('C17.pixel2index', n)
        LOG.count('C17.pixel2index.kind', 'integer-coords')
        if not np.array_equal(got.astype(np.int64), ref):
            j = int(np.nonzero(got.astype(np.int64) != ref)[0][0])
            LOG.violation('C17', 'C17.pixel2index', f'pixel2index/integer-coordinates/{nd}d',
                          f'{idt if isinstance(idt, str) else np.dtype(idt).name} coords {[int(c[j]) for c in coords]} in map {pshape}: got {int(got[j])}, expected {int(ref[j])}')
    guarded('C17.pixel2index', judge)


def case_pixel(rng: Any, ctx: Ctx, index: int) -> None:
    if index % 8 == 7:
        return case_pixel_int(rng, ctx, index)
    nd = int(rng.integers(1, 4))
    shape = tuple(int(v) for v in rng.integers(1, 7, size=nd))       # array shape (reverse of pixel_shape)
    land = GridLandscape(shape, 'I', np.float32) if rng.integers(2) else GridLandscape(pixel_shape=shape[::-1], stokes='IQU', dtype=np.float32)
    pshape = shape[::-1]
    fdt = np.float64 if ctx.x64 and rng.integers(2) else np.float32
    n = 400
    kind = gen.pick(rng, ['inside', 'mixed', 'border', 'far'])
    coords = []
    for d in pshape:
        if kind == 'inside':
            c = rng.uniform(-0.49, d - 0.51, size=n)
        elif kind == 'mixed':
            c = rng.uniform(-2.0, d + 1.0, size=n)
        elif kind == 'border':
            c = rng.integers(-1, d + 1, size=n) + gen.pick(rng, [0.5, -0.5]) + rng.choice([0.0, 1e-3, -1e-3, 1e-9], size=n)
        else:
            c = rng.choice([-1e6, 1e6, -3.0, d + 5.0, 0.0, d - 1.0], size=n)
        coords.append(c.astype(fdt))
    LOG.case_key(f'pixel2index:{nd}d:{kind}:{np.dtype(fdt).name}', True)

    def judge() -> None:
        got = np.asarray(land.pixel2index(*[jnp.asarray(c) for c in coords]))
        refs = {m: ref_index(pshape, coords, m) for m in ('even', 'up', 'down')}
        # coordinates within 1e-6 (float64) / 1e-3 relative (float32) of a half-integer accept either neighbour
        eps = 1e-6 if fdt == np.float64 else 2e-3
        amb = np.zeros(n, dtype=bool)
        for c in coords:
            frac = np.abs(np.asarray(c, np.float64) - np.floor(np.asarray(c, np.float64)) - 0.5)
            amb |= frac < eps
        ok = (got == refs['even']) | (amb & ((got == refs['up']) | (got == refs['down'])))
        # an ambiguous coordinate on several axes may mix neighbours: accept any combination there
        multi = amb & ~ok
        if multi.any():
            for j in np.nonzero(multi)[0]:
                combos = set()
                for modes in itertools.product(('up', 'down'), repeat=nd):
                    i, valid, stride = 0, True, 1
                    for c, d, m in zip(coords, pshape, modes):
                        v = math.floor(float(c[j]) + 0.5) if m == 'up' else math.ceil(float(c[j]) - 0.5)
                        valid &= 0 <= v < d
                        i += int(v) * stride if valid else 0
                        stride *= d
                    combos.add(i if valid else -1)
                ok[j] = int(got[j]) in combos
        LOG.evaluated('C17.pixel2index', n)
        LOG.count('C17.pixel2index.kind', kind)
        LOG.count('C17.pixel2index.outside', int((refs['even'] == -1).sum()))
        if not ok.all():
            j = int(np.nonzero(~ok)[0][0])
            LOG.violation('C17', 'C17.pixel2index', f'pixel2index/{"outside" if refs["even"][j] == -1 else "inside"}/{nd}d',
                          f'coords {[float(c[j]) for c in coords]} in map {pshape}: got {int(got[j])}, expected {int(refs["even"][j])}',
                          kind=kind)
        if got.dtype != np.int32:
            LOG.violation('C17', 'C17.pixel2index', 'pixel2index/dtype-small-map', f'{got.dtype} for a map of {math.prod(shape)} pixels')
    guarded('C17.pixel2index', judge)
    LOG.sample({'pixel_shape': list(pshape), 'kind': kind, 'first': [float(c[0]) for c in coords]})


def case_bijection(rng: Any, ctx: Ctx, index: int) -> None:
    """Integer in-map coordinates are in bijection with 0..N-1 (exhaustive for each small map)."""
    shapes = [s for nd in (1, 2, 3) for s in itertools.product(*[range(1, (7, 6, 5)[k]) for k in range(nd)])]
    shape = shapes[index % len(shapes)]
    land = GridLandscape(pixel_shape=shape, stokes='I', dtype=np.float32)
    LOG.case_key(f'bijection:{shape}', math.prod(shape) > 1)

    def judge() -> None:
        grids = np.meshgrid(*[np.arange(d) for d in shape], indexing='ij')
        coords = [g.ravel().astype(np.float32) for g in grids]
        got = np.asarray(land.pixel2index(*[jnp.asarray(c) for c in coords]))
        N = math.prod(shape)
        LOG.evaluated('C17.bijection')
        if sorted(got.tolist()) != list(range(N)):
            LOG.violation('C17', 'C17.bijection', f'pixel2index/not-a-bijection/{len(shape)}d', f'map {shape}: indices {sorted(got.tolist())[:12]}...')
            return
        exp = sum(g.ravel() * int(np.prod(shape[:k], dtype=int)) for k, g in enumerate(grids))
        if not np.array_equal(got, exp):
            LOG.violation('C17', 'C17.bijection', f'pixel2index/not-row-major/{len(shape)}d', f'map {shape}: first coordinate is not the fastest')
        # one step outside along any axis gives -1
        for k, d in enumerate(shape):
            for v in (-1.0, float(d)):
                c2 = [c.copy() for c in coords]
                c2[k][:] = v
                out = np.asarray(land.pixel2index(*[jnp.asarray(c) for c in c2]))
                if not np.all(out == -1):
                    LOG.violation('C17', 'C17.bijection', f'pixel2index/outside-not-minus-one/{len(shape)}d', f'map {shape} axis {k} coordinate {v}')
    guarded('C17.bijection', judge)


def case_wide(rng: Any, ctx: Ctx, index: int) -> None:
    """Index dtype wide enough for N (64-bit mode only: int64 does not exist otherwise)."""
    if not ctx.x64:
        return
    big = gen.pick(rng, [(70000, 40000), (50000, 50000), (46341, 46341)])
    small = gen.pick(rng, [(46340, 46340), (1000, 1000)])
    for pshape, wide in ((big, True), (small, False)):
        land = GridLandscape(pixel_shape=pshape, stokes='I', dtype=np.float32)
        x = np.array([pshape[0] - 1.0, 0.0, pshape[0] - 2.0])
        y = np.array([pshape[1] - 1.0, pshape[1] - 1.0, 17.0])
        LOG.case_key(f'wide:{pshape}', True)

        def judge(land: Any = land, x: Any = x, y: Any = y, pshape: Any = pshape, wide: bool = wide) -> None:
            got = np.asarray(land.pixel2index(jnp.asarray(x), jnp.asarray(y)))
            exp = x.astype(np.int64) + y.astype(np.int64) * pshape[0]
            LOG.evaluated('C17.wide')
            if not np.array_equal(got.astype(np.int64), exp):
                LOG.violation('C17', 'C17.wide', f'pixel2index/overflow/{"wide" if wide else "narrow"}', f'map {pshape}: got {got.tolist()} expected {exp.tolist()}')
            want = np.int64 if math.prod(pshape) - 1 > np.iinfo(np.int32).max else np.int32
            if got.dtype != want:
                LOG.violation('C17', 'C17.wide', f'pixel2index/dtype/{"wide" if wide else "narrow"}', f'map {pshape}: dtype {got.dtype}, expected {np.dtype(want).name}')
        guarded('C17.wide', judge)


def ambiguous(nside: int, theta: np.ndarray, phi: np.ndarray, ref: np.ndarray, eps: float) -> np.ndarray:
    amb = np.zeros(theta.shape, dtype=bool)
    for dt, dp in itertools.product((-eps, 0, eps), repeat=2):
        if dt == 0 and dp == 0:
            continue
        t = np.clip(theta + dt, 0, np.pi)
        amb |= hp.ang2pix(nside, t, phi + dp / np.maximum(np.sin(t), 1e-3)) != ref
    return amb


def case_healpix(rng: Any, ctx: Ctx, index: int) -> None:
    kmax = 13 if ctx.x64 else 6
    k = int(index % (kmax + 1))
    nside = 2 ** k
    stokes = gen.pick(rng, ['I', 'QU', 'IQU', 'IQUV'])
    land = HealpixLandscape(nside, stokes, np.float64 if ctx.x64 else np.float32)
    n = 20000 if ctx.thorough else 4000
    kind = gen.pick(rng, ['uniform', 'poles', 'equator', 'wrap', 'centres'])
    if kind == 'uniform':
        theta = np.arccos(rng.uniform(-1, 1, n))
        phi = rng.uniform(0, 2 * np.pi, n)
    elif kind == 'poles':
        theta = np.where(rng.integers(2, size=n), rng.uniform(0, 0.05, n), np.pi - rng.uniform(0, 0.05, n))
        theta[:4] = [0.0, np.pi, 1e-12, np.pi - 1e-12]
        phi = rng.uniform(0, 2 * np.pi, n)
    elif kind == 'equator':
        theta = np.pi / 2 + rng.uniform(-0.02, 0.02, n)
        phi = rng.uniform(0, 2 * np.pi, n)
    elif kind == 'wrap':
        theta = np.arccos(rng.uniform(-1, 1, n))
        phi = rng.uniform(-4 * np.pi, 6 * np.pi, n)
    else:
        pix = rng.integers(0, 12 * nside * nside, n)
        theta, phi = hp.pix2ang(nside, pix)
    fdt = np.float64 if ctx.x64 else np.float32
    theta, phi = theta.astype(fdt), phi.astype(fdt)
    LOG.case_key(f'healpix:nside{nside}:{kind}', True)

    def judge() -> None:
        got = np.asarray(land.world2index(jnp.asarray(theta), jnp.asarray(phi)))
        ref = hp.ang2pix(nside, theta.astype(np.float64), phi.astype(np.float64))
        eps = 1e-9 if ctx.x64 else 3e-6
        bad = got != ref
        LOG.evaluated('C17.healpix', n)
        LOG.count('C17.healpix.nside', nside, n)
        if bad.any():
            amb = ambiguous(nside, theta.astype(np.float64), phi.astype(np.float64), ref, eps)
            LOG.count('C17.healpix.boundary-ambiguous', nside, int((bad & amb).sum()))
            real = bad & ~amb
            if real.any():
                j = int(np.nonzero(real)[0][0])
                LOG.violation('C17', 'C17.healpix', f'world2index/healpy-disagrees/{kind}',
                              f'nside {nside} theta {float(theta[j])!r} phi {float(phi[j])!r}: got {int(got[j])}, healpy {int(ref[j])} '
                              f'({int(real.sum())} of {n})')
        if got.min() < 0 or got.max() >= 12 * nside * nside:
            LOG.violation('C17', 'C17.healpix', 'world2index/out-of-range', f'nside {nside}: indices in [{got.min()}, {got.max()}]')
    guarded('C17.healpix', judge)


def case_passthrough(rng: Any, ctx: Ctx, index: int) -> None:
    """For a HEALPix landscape the flat index is the ring pixel number world2pixel returns: no precision may be
    lost on the way, at any resolution and in either 64-bit mode (independent of healpy's float64 accuracy)."""
    k = int(index % 14)
    nside = 2 ** k
    land = HealpixLandscape(nside, 'I', np.float32)
    fdt = np.float64 if ctx.x64 else np.float32
    n = 3000
    theta = np.arccos(rng.uniform(-1, 1, n)).astype(fdt)
    phi = rng.uniform(0, 2 * np.pi, n).astype(fdt)
    LOG.case_key(f'passthrough:nside{nside}', True)

    def judge() -> None:
        import jax_healpy as jhp
        got = np.asarray(land.world2index(jnp.asarray(theta), jnp.asarray(phi)))
        pix = np.asarray(jhp.ang2pix(nside, jnp.asarray(theta), jnp.asarray(phi)))     # the ring pixel number itself
        LOG.evaluated('C17.passthrough', n)
        LOG.count('C17.passthrough.nside', nside, n)
        if not np.array_equal(got.astype(np.int64), pix.astype(np.int64)):
            j = int(np.nonzero(got.astype(np.int64) != pix.astype(np.int64))[0][0])
            LOG.violation('C17', 'C17.passthrough', f'world2index/pixel-number-altered/x64={ctx.x64}',
                          f'nside {nside}: pixel {int(pix[j])} became index {int(got[j])} ({int((got != pix).sum())} of {n})')
    guarded('C17.passthrough', judge)


def case_coverage(rng: Any, ctx: Ctx, index: int) -> None:
    nside = int(gen.pick(rng, [1, 2, 4, 8]))
    land = HealpixLandscape(nside, gen.pick(rng, ['I', 'IQU']), np.float32)
    n = int(rng.integers(1, 500))
    fdt = np.float64 if ctx.x64 else np.float32
    pix = rng.integers(0, 12 * nside * nside, n)
    if rng.integers(3) == 0:
        pix[:] = pix[0]           # all samples in one pixel
    theta, phi = hp.pix2ang(nside, pix)
    samp = Sampling(jnp.asarray(theta.astype(fdt)), jnp.asarray(phi.astype(fdt)), jnp.zeros(n, fdt))
    LOG.case_key(f'coverage:nside{nside}:n{min(n, 3)}', True)

    def judge() -> None:
        cov = np.asarray(land.get_coverage(samp))
        ref = np.bincount(hp.ang2pix(nside, theta, phi), minlength=12 * nside * nside)
        LOG.evaluated('C17.coverage')
        if cov.shape != ref.shape or not np.array_equal(cov, ref):
            LOG.violation('C17', 'C17.coverage', 'get_coverage/not-histogram', f'nside {nside}, {n} samples: coverage differs from bincount '
                          f'(sum {int(cov.sum())} vs {n})')
        if int(cov.sum()) != n:
            LOG.violation('C17', 'C17.coverage', 'get_coverage/sum', f'sum {int(cov.sum())} != {n} samples')
    guarded('C17.coverage', judge)

    if index % 3 == 1:
        # a non-HEALPix landscape whose world coordinates ARE the pixel coordinates: maps with more than six pixels along an axis
        # (coordinates beyond 2 pi), all samples inside the map and away from the half-pixel borders
        shape2 = (int(rng.integers(1, 13)), int(rng.integers(1, 13)))
        gl = GridLandscape(shape2, 'I', np.float32)
        cx = rng.integers(0, shape2[1], n) + rng.uniform(-0.4, 0.4, n)       # first pixel coordinate runs along the last array axis
        cy = rng.integers(0, shape2[0], n) + rng.uniform(-0.4, 0.4, n)
        gs = Sampling(jnp.asarray(cx.astype(fdt)), jnp.asarray(cy.astype(fdt)), jnp.zeros(n, fdt))

        def judge_grid() -> None:
            cov = np.asarray(gl.get_coverage(gs))
            ref = np.bincount(ref_index(shape2[::-1], [cx, cy], 'even'), minlength=shape2[0] * shape2[1]).reshape(shape2)
            LOG.evaluated('C17.coverage')
            LOG.count('C17.coverage.grid', f'{"beyond-2pi" if max(shape2) > 7 else "small"}')
            if cov.shape != ref.shape or not np.array_equal(cov, ref):
                LOG.violation('C17', 'C17.coverage', 'get_coverage/grid-landscape/not-histogram',
                              f'map {shape2}, {n} in-map samples: coverage differs from the histogram of the pixel coordinates (sum {int(cov.sum())})')
        guarded('C17.coverage', judge_grid)

    if index % 3 == 2:
        # a raster: co-latitudes (n, 1) against longitudes (1, m) - a sampling is the BROADCAST of its three arrays
        nr, mr = int(rng.integers(2, 7)), int(rng.integers(2, 7))
        th = np.arccos(rng.uniform(-1, 1, (nr, 1)))
        ph = rng.uniform(0, 2 * np.pi, (1, mr))
        rs = Sampling(jnp.asarray(th.astype(fdt)), jnp.asarray(ph.astype(fdt)), jnp.asarray(0.0, dtype=fdt))

        def judge_raster() -> None:
            cov = np.asarray(land.get_coverage(rs))
            T, Pp = np.broadcast_arrays(th.astype(fdt), ph.astype(fdt))
            ref = np.bincount(hp.ang2pix(nside, T.ravel().astype(np.float64), Pp.ravel().astype(np.float64)), minlength=12 * nside * nside)
            LOG.evaluated('C17.coverage')
            LOG.count('C17.coverage.raster', f'{nr}x{mr}')
            if int(cov.sum()) != nr * mr:
                LOG.violation('C17', 'C17.coverage', 'get_coverage/raster/sum', f'sum {int(cov.sum())} for a {nr}x{mr} raster ({nr * mr} samples)')
            elif fdt == np.float64 and not np.array_equal(cov.ravel(), ref):
                LOG.violation('C17', 'C17.coverage', 'get_coverage/raster/not-histogram', f'{nr}x{mr} raster at nside {nside}')
        guarded('C17.coverage', judge_raster)

    if index % 4 == 0:
        # a landscape with a frequency axis: the coverage has the landscape's shape and still sums to the number of samples
        from furax.landscapes import FrequencyLandscape
        nf = int(rng.integers(1, 4))
        fl = FrequencyLandscape(nside, jnp.arange(1.0, nf + 1.0), 'I', np.float32)

        def judge_freq() -> None:
            LOG.evaluated('C17.coverage')
            LOG.count('C17.coverage.frequency', nf)
            try:
                cov = np.asarray(fl.get_coverage(samp))
            except Exception as exc:  # noqa: BLE001
                LOG.violation('C17', 'C17.coverage', f'get_coverage/frequency-landscape/raises-{type(exc).__name__}', str(exc)[:120], nfreq=nf, nside=nside)
                return
            if cov.shape != (nf, 12 * nside * nside) or int(cov.sum()) != n or len(fl) != nf * 12 * nside * nside:
                LOG.violation('C17', 'C17.coverage', 'get_coverage/frequency-landscape/shape-or-sum', f'shape {cov.shape}, sum {int(cov.sum())} for {n} samples, len {len(fl)}',
                              nfreq=nf, nside=nside)
        guarded('C17.coverage', judge_freq)


def case_nonpow2(rng: Any, ctx: Ctx, index: int) -> None:
    """Exercised and counted, not judged: non-power-of-two nside is not a HEALPix resolution."""
    nside = int(gen.pick(rng, [3, 5, 12]))
    land = HealpixLandscape(nside, 'I', np.float32)
    theta = np.arccos(rng.uniform(-1, 1, 200)).astype(np.float32)
    phi = rng.uniform(0, 2 * np.pi, 200).astype(np.float32)
    try:
        got = np.asarray(land.world2index(jnp.asarray(theta), jnp.asarray(phi)))
        ref = hp.ang2pix(nside, theta.astype(np.float64), phi.astype(np.float64))
        LOG.count('C17.nonpow2.not-judged', f'nside{nside}:disagree', int((got != ref).sum()))
        LOG.count('C17.nonpow2.not-judged', f'nside{nside}:total', 200)
    except Exception as exc:  # noqa: BLE001
        LOG.count('C17.nonpow2.not-judged', f'nside{nside}:raises-{type(exc).__name__}')


def run(ctx: Ctx) -> None:
    # small fixed-count parts first: they must never be starved by the time cap of the big streams
    drive(ctx, case_wide, 6, 30, stream=2, part='pixel')
    drive(ctx, case_bijection, 155, 155, stream=1, part='pixel')
    drive(ctx, case_pixel, 1200, 12000, stream=0, part='pixel')
    drive(ctx, case_nonpow2, 10, 30, stream=5, part='healpix')

    def healpix_mix(rng: Any, c: Ctx, index: int) -> None:
        # interleaved so that none of the three is starved by the time cap; the sub-index keeps the nside cycle
        (case_healpix, case_passthrough, case_coverage)[index % 3](rng, c, index // 3)
    drive(ctx, healpix_mix, 420, 4200, stream=3, part='healpix')
