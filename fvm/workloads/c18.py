"""C18 workload: flatten/unflatten round trips and eager vs jit (closure) vs filter_jit (argument)
application for every operator class, composites and landscapes; tracer-leak checker on."""

from __future__ import annotations

from typing import Any

import equinox as eqx
import jax
import jax.numpy as jnp
import numpy as np

from furax._base.config import Config, ConfigState
from furax.landscapes import FrequencyLandscape, HealpixLandscape, StokesLandscape

from .. import dense, gen
from ..core import LOG, guarded
from ..workload import Ctx, drive, generate
from .common import rand_operator, struct_kind


def has_bool_mask(op: Any) -> bool:
    found = []

    def visit(o: Any) -> None:
        n = type(o).__name__
        if n == 'PackOperator':
            found.append(o)
        if n == 'IndexOperator' and any(getattr(i, 'dtype', None) == bool for i in o.indices):
            found.append(o)

    dense.walk(op, visit)
    return bool(found)


def same_tree(a: Any, b: Any, tol: float) -> str | None:
    la, ta = jax.tree.flatten(a)
    lb, tb = jax.tree.flatten(b)
    if ta != tb:
        return f'tree {ta} vs {tb}'
    for x, y in zip(la, lb):
        if x.shape != y.shape:
            return f'shape {x.shape} vs {y.shape}'
        if x.dtype != y.dtype:
            return f'dtype {x.dtype} vs {y.dtype}'
        xa, ya = np.asarray(x, np.float64), np.asarray(y, np.float64)
        ok, err = dense.close(xa, ya, tol)
        if not ok:
            return f'values differ (rel err {err:.3g}, tol {tol:g})'
    return None


def scalar_angle_operator(rng: Any, ctx: Ctx) -> tuple[Any, Any]:
    from furax.operators.hwp import HWPOperator
    from furax.operators.polarizers import LinearPolarizerOperator
    from furax.operators.qu_rotations import QURotationOperator
    gen.begin_case(rng)
    cls = gen.pick(rng, gen.STOKES[1:])
    shape = gen.pick(rng, [(3,), (2, 3)])
    dt = gen.case_dtype(rng)
    s = cls.structure_for(shape, dt)
    a = float(rng.uniform(-3, 3))
    angle = gen.pick(rng, [a, np.float64(a), np.float32(a), np.deg2rad(np.float64(a * 10)), int(a)])
    which = gen.pick(rng, ['rot', 'rot.T', 'hwp', 'pol'])
    if which == 'rot':
        op = QURotationOperator(angle, s)
    elif which == 'rot.T':
        op = QURotationOperator(angle, s).T
    elif which == 'hwp':
        op = HWPOperator.create(shape, dt, cls.stokes, angles=angle)
    else:
        op = LinearPolarizerOperator.create(shape, dt, cls.stokes, angles=angle)
    LOG.count('C18.scalar-angle', type(angle).__name__)
    return s, op


def case_history(rng: Any, ctx: Ctx, index: int) -> None:
    """One operator OBJECT whose very first application happens inside a jit that closes over the operator and over constant
    data (the "data are constants of the loss" pattern), applied eagerly afterwards: the eager result must not depend on that
    history.  Inside a composition only the operand applied first sees concrete data, so the object is used bare: an atom, its
    lazy or dedicated transpose, its closed-form inverse."""
    gen.begin_case(rng)
    s = gen.rand_struct(rng)
    a = generate(lambda: gen.atom(rng, s))
    variants = [('A', lambda: a)]
    if 'InverseOperator' not in dense.class_names(a):
        variants.append(('A.T', lambda: a.T))
        variants.append(('A.T', lambda: a.T))
    if dense.struct_eq(a.in_structure(), a.out_structure()) and type(a).__name__ in (
            'DiagonalOperator', 'HomothetyOperator', 'IdentityOperator', 'QURotationOperator', 'HWPOperator', 'BlockDiagonalOperator'):
        variants.append(('A.I', lambda: a.I))
    label, mk = variants[int(rng.integers(len(variants)))]
    try:
        op = mk()
    except Exception:  # noqa: BLE001
        return
    x = gen.rand_input(rng, op.in_structure())
    fresh = jax.tree.unflatten(*reversed(jax.tree.flatten(op)))       # same content, no history
    mon = 'C18.jit-closure'
    key = f'{type(op).__name__}<{type(a).__name__}>'
    LOG.case_key(f'history:{label}:{dense.skeleton(op)}:{struct_kind(s)}', True)
    LOG.count('C18.history', f'bare:{label}')
    tol = max(dense.tol_for(op), 1e-6)
    LOG.evaluated(mon)
    try:
        yj = jax.jit(lambda sc: jax.tree.map(lambda l: sc * l, op.mv(x)))(1.0)
    except Exception as exc:  # noqa: BLE001
        LOG.violation('C18', mon, f'{key}/jit-constant-input/raises-{type(exc).__name__}', str(exc)[:200], expr=dense.describe(op))
        return
    try:
        y = op.mv(x)
        yj2 = jax.jit(lambda sc: jax.tree.map(lambda l: sc * l, op.mv(x)))(1.0)
    except Exception as exc:  # noqa: BLE001
        LOG.violation('C18', mon, f'{key}/eager-after-jit/raises-{type(exc).__name__}',
                      'application fails after the object was first applied inside a jit: ' + str(exc)[:150], expr=dense.describe(op))
        return
    ref = fresh.mv(x)
    for what, got in (('jit-constant-input', yj), ('eager-after-jit', y), ('second-jit', yj2)):
        why = same_tree(ref, got, tol if what != 'eager-after-jit' else 0.0 if False else tol)
        if why:
            LOG.violation('C18', mon, f'{key}/{what}/{why.split(" ")[0]}', why, expr=dense.describe(op))
            return


def case_numpy_sum(rng: Any, ctx: Ctx, index: int) -> None:
    """Sums of three or more terms applied to NumPy data (eagerly the arrays are used as they are, a jit converts them): terms
    that return their input or a view of it (identity, half-wave plate, reshapes) first, scalars held as Python numbers after."""
    from furax._base.core import HomothetyOperator, IdentityOperator
    gen.begin_case(rng)
    s = gen.rand_struct(rng)
    firsts = [lambda: IdentityOperator(s)]
    if gen.is_stokes(s):
        from furax.operators.hwp import HWPOperator
        firsts.append(lambda: HWPOperator(s))
    terms = [gen.pick(rng, firsts)()]
    for _ in range(int(rng.integers(2, 4))):
        k = gen.pick(rng, ['py-scalar', 'py-scalar', 'diagonal', 'atom'])
        t = None
        if k == 'diagonal':
            t = gen.a_diagonal(rng, s)
        elif k == 'atom':
            t = gen.atom(rng, s, only=('diagonal', 'homothety', 'hwp', 'identity'))
        if t is None or not dense.struct_eq(t.out_structure(), s):
            t = HomothetyOperator(float(gen.pick(rng, [2.0, -1.5, 0.5])), s)
        terms.append(t)
    op = terms[0]
    for t in terms[1:]:
        op = op + t
    x = gen.rand_input(rng, s)
    xn = jax.tree.map(lambda l: np.array(l), x)
    keep = jax.tree.map(lambda l: l.copy(), xn)
    LOG.case_key(f'numpy-sum:{dense.skeleton(op)}:{struct_kind(s)}', True)
    LOG.count('C18.numpy-input', f'sum-of-{len(terms)}')
    tol = max(dense.tol_for(op), 1e-6)
    mon = 'C18.jit-closure'
    LOG.evaluated(mon)
    try:
        ref = op.mv(x)
        yn = op.mv(xn)
        yj = jax.jit(lambda v: op.mv(v))(xn)
    except Exception as exc:  # noqa: BLE001
        LOG.violation('C18', mon, f'AdditionOperator/numpy-input/raises-{type(exc).__name__}', str(exc)[:160], expr=dense.describe(op))
        return
    for what, got in (('eager', yn), ('jit', yj)):
        why = same_tree(ref, jax.tree.map(jnp.asarray, got), tol)
        if why:
            LOG.violation('C18', mon, f'AdditionOperator/numpy-input/{what}/{why.split(" ")[0]}',
                          f'{what} result on NumPy inputs differs from the result on JAX arrays: {why}', expr=dense.describe(op))
            return
    if any(not np.array_equal(a, b) for a, b in zip(jax.tree.leaves(xn), jax.tree.leaves(keep))):
        LOG.violation('C18', mon, 'AdditionOperator/numpy-input/input-modified', 'the operator modified the arrays it was given', expr=dense.describe(op))


def case(rng: Any, ctx: Ctx, index: int) -> None:
    if index % 10 == 7:
        return case_numpy_sum(rng, ctx, index)
    if index % 10 == 8:
        return case_history(rng, ctx, index)
    if index % 10 == 9:
        s, op = scalar_angle_operator(rng, ctx)
        # a float32 (or Python) scalar angle limits the accuracy to float32 whatever the data dtype
        return compare_modes(rng, ctx, s, op, min_tol=1e-6)
    s, op = rand_operator(rng, ctx, atoms=0.6, lazy_inverse=bool(rng.integers(5) == 0), index=index)
    compare_modes(rng, ctx, s, op)


def compare_modes(rng: Any, ctx: Ctx, s: Any, op: Any, min_tol: float = 0.0) -> None:
    names = dense.class_names(op)
    top = type(op).__name__
    x = gen.rand_input(rng, s)
    tol = max(dense.tol_for(op), 1e-6 if any(np.dtype(l.dtype).itemsize < 8 for l in dense.leaves(s)) else 1e-12, min_tol)
    first_in_jit = bool(rng.integers(3) == 0) and 'InverseOperator' not in names
    if first_in_jit:
        # history: the very first application happens inside a jit closing over the operator and over a constant input
        try:
            yj0 = jax.jit(lambda sc: jax.tree.map(lambda l: sc * l, op.mv(x)))(1.0)
        except Exception as exc:  # noqa: BLE001
            LOG.evaluated('C18.jit-closure')
            LOG.violation('C18', 'C18.jit-closure', f'{type(op).__name__}/jit-constant-input/raises-{type(exc).__name__}', str(exc)[:200], expr=dense.describe(op))
            return
    try:
        with jax.checking_leaks():
            y = op.mv(x)
    except Exception as exc:  # noqa: BLE001
        if first_in_jit:
            LOG.evaluated('C18.jit-closure')
            LOG.violation('C18', 'C18.jit-closure', f'{type(op).__name__}/eager-after-jit/raises-{type(exc).__name__}',
                          'eager application fails after the operator was first applied inside a jit: ' + str(exc)[:150], expr=dense.describe(op))
            return
        raise
    if first_in_jit:
        LOG.count('C18.history', 'jit-first')
        why0 = same_tree(y, yj0, max(dense.tol_for(op), 1e-6, min_tol))
        LOG.evaluated('C18.jit-closure')
        if why0:
            LOG.violation('C18', 'C18.jit-closure', f'{type(op).__name__}/jit-constant-input/{why0.split(" ")[0]}', why0, expr=dense.describe(op))
    if rng.integers(4) == 0 and 'InverseOperator' not in names:
        # the same data handed over as NumPy arrays (converted at the jit boundary, used as they are eagerly): same result, and
        # the caller's arrays are left alone
        xn = jax.tree.map(lambda l: np.array(l), x)
        keep = jax.tree.map(lambda l: l.copy(), xn)
        try:
            yn = op.mv(xn)
        except Exception:  # noqa: BLE001 - NumPy inputs are a convenience, not every operator takes them
            LOG.count('C18.numpy-input', 'refused')
        else:
            LOG.count('C18.numpy-input', 'applied')
            LOG.evaluated('C18.jit-closure')
            why_n = same_tree(y, jax.tree.map(jnp.asarray, yn), tol)
            if why_n:
                LOG.violation('C18', 'C18.jit-closure', f'{top}/numpy-input/{why_n.split(" ")[0]}', 'eager result on NumPy inputs differs from the result on JAX arrays: ' + why_n,
                              expr=dense.describe(op))
            elif any(not np.array_equal(a, b) for a, b in zip(jax.tree.leaves(xn), jax.tree.leaves(keep))):
                LOG.violation('C18', 'C18.jit-closure', f'{top}/numpy-input/input-modified', 'the operator modified the arrays it was given', expr=dense.describe(op))
    nleaves = len(jax.tree.leaves(op))
    LOG.case_key(f'{dense.skeleton(op)}:{struct_kind(s)}', nleaves >= 1 or True)
    for n in names:
        LOG.count('C18.mode.eager', n)

    # 1. flatten / unflatten round trip
    def j_roundtrip() -> None:
        leaves, treedef = jax.tree.flatten(op)
        op2 = jax.tree.unflatten(treedef, leaves)
        LOG.evaluated('C18.roundtrip')
        for n in names:
            LOG.count('C18.mode.roundtrip', n)
        if type(op2) is not type(op):
            LOG.violation('C18', 'C18.roundtrip', f'{top}/roundtrip/class', f'{type(op2).__name__}', expr=dense.describe(op))
            return
        if not (dense.struct_eq(op2.in_structure(), op.in_structure()) and dense.struct_eq(op2.out_structure(), op.out_structure())):
            LOG.violation('C18', 'C18.roundtrip', f'{top}/roundtrip/structures', 'structures changed by flatten/unflatten', expr=dense.describe(op))
            return
        why = same_tree(y, op2.mv(x), tol)
        if why:
            LOG.violation('C18', 'C18.roundtrip', f'{top}/roundtrip/action', why, expr=dense.describe(op))
    guarded('C18.roundtrip', j_roundtrip)

    # 2. jit over a closure
    def j_closure() -> None:
        try:
            with jax.checking_leaks():
                yj = jax.jit(lambda v: op.mv(v))(x)
        except Exception as exc:  # noqa: BLE001
            LOG.evaluated('C18.jit-closure')
            key = 'tracer-leak' if 'leak' in str(exc).lower() else f'raises-{type(exc).__name__}'
            LOG.violation('C18', 'C18.jit-closure', f'{top}/jit-closure/{key}', str(exc)[:200], expr=dense.describe(op))
            return
        LOG.evaluated('C18.jit-closure')
        for n in names:
            LOG.count('C18.mode.jit-closure', n)
        why = same_tree(y, yj, tol)
        if why:
            LOG.violation('C18', 'C18.jit-closure', f'{top}/jit-closure/{why.split(" ")[0]}', why, expr=dense.describe(op))
    guarded('C18.jit-closure', j_closure)

    # 3. filtering jit with the operator as an argument (static non-array fields)
    def j_arg() -> None:
        if has_bool_mask(op):
            LOG.skipped('C18.jit-argument', 'boolean-mask')
            return
        try:
            yf = eqx.filter_jit(lambda o, v: o.mv(v))(op, x)
        except Exception as exc:  # noqa: BLE001
            LOG.evaluated('C18.jit-argument')
            LOG.violation('C18', 'C18.jit-argument', f'{top}/jit-argument/raises-{type(exc).__name__}', str(exc)[:200], expr=dense.describe(op))
            return
        LOG.evaluated('C18.jit-argument')
        for n in names:
            LOG.count('C18.mode.jit-argument', n)
        why = same_tree(y, yf, tol)
        if why:
            LOG.violation('C18', 'C18.jit-argument', f'{top}/jit-argument/{why.split(" ")[0]}', why, expr=dense.describe(op))
    guarded('C18.jit-argument', j_arg)
    LOG.sample({'expr': dense.describe(op)[:300], 'classes': sorted(names)})


class GridLandscape(StokesLandscape):
    def world2pixel(self, theta: Any, phi: Any) -> tuple[Any, ...]:
        return (theta, phi)


jax.tree_util.register_pytree_node_class(GridLandscape)


def case_landscape(rng: Any, ctx: Ctx, index: int) -> None:
    dt = gen.pick(rng, [np.float64, np.float32, np.float16])   # float64 landscapes are the default, also with 64-bit mode off
    stokes = gen.pick(rng, ['I', 'QU', 'IQU', 'IQUV'])
    which = gen.pick(rng, ['healpix', 'frequency', 'grid', 'config'])
    LOG.case_key(f'landscape:{which}:{stokes}:{np.dtype(dt).name}', True)

    def judge() -> None:
        if which == 'config':
            cs = Config(solver_throw=bool(rng.integers(2)))._instance
            leaves, td = jax.tree.flatten(cs)
            cs2 = jax.tree.unflatten(td, leaves)
            LOG.evaluated('C18.landscape')
            LOG.count('C18.landscape.kind', which)
            if cs2 != cs:
                LOG.violation('C18', 'C18.landscape', 'ConfigState/roundtrip', 'configuration state changed by flatten/unflatten')
            return
        if which == 'healpix':
            land: Any = HealpixLandscape(int(gen.pick(rng, [1, 2, 4, 16])), stokes, dt)
        elif which == 'frequency':
            land = FrequencyLandscape(int(gen.pick(rng, [1, 2, 4])), jnp.asarray([30.0, 40.0, 100.0][: int(rng.integers(1, 4))]), stokes, dt)
        else:
            land = GridLandscape(tuple(int(v) for v in rng.integers(1, 6, size=int(rng.integers(1, 4)))), stokes, dt)
        LOG.evaluated('C18.landscape')
        LOG.count('C18.landscape.kind', which)
        try:
            leaves, td = jax.tree.flatten(land)
            land2 = jax.tree.unflatten(td, leaves)
        except Exception as exc:  # noqa: BLE001
            LOG.violation('C18', 'C18.landscape', f'{type(land).__name__}/roundtrip/raises-{type(exc).__name__}', str(exc)[:200])
            return
        if type(land2) is not type(land):
            LOG.violation('C18', 'C18.landscape', f'{type(land).__name__}/roundtrip/class', type(land2).__name__)
            return
        for attr in ('shape', 'dtype', 'stokes', 'pixel_shape', 'nside', 'size'):
            if hasattr(land, attr) and (not hasattr(land2, attr) or getattr(land2, attr) != getattr(land, attr)):
                LOG.violation('C18', 'C18.landscape', f'{type(land).__name__}/roundtrip/attribute-{attr}',
                              f'{getattr(land2, attr, None)!r} instead of {getattr(land, attr)!r}')
                return
        if which == 'frequency' and not np.array_equal(np.asarray(land2.frequencies), np.asarray(land.frequencies)):
            LOG.violation('C18', 'C18.landscape', 'FrequencyLandscape/roundtrip/attribute-frequencies', 'frequencies changed')
            return
        if not dense.struct_eq(land2.structure, land.structure):
            LOG.violation('C18', 'C18.landscape', f'{type(land).__name__}/roundtrip/structure', 'structure changed')
            return
        if which in ('healpix',):
            th = jnp.asarray(np.arccos(rng.uniform(-1, 1, 50)), dtype=jnp.float64 if ctx.x64 else jnp.float32)
            ph = jnp.asarray(rng.uniform(0, 2 * np.pi, 50), dtype=th.dtype)
            a, b = np.asarray(land.world2index(th, ph)), np.asarray(land2.world2index(th, ph))
            j = np.asarray(jax.jit(lambda l, t, p: l.world2index(t, p))(land, th, ph))
            if not (np.array_equal(a, b) and np.array_equal(a, j)):
                LOG.violation('C18', 'C18.landscape', f'{type(land).__name__}/roundtrip/world2index', 'world2index differs after round trip or under jit')
        if which == 'grid':
            cs = [jnp.asarray(rng.uniform(-1, d, 30), dtype=jnp.float32) for d in land.pixel_shape]
            a, b = np.asarray(land.pixel2index(*cs)), np.asarray(land2.pixel2index(*cs))
            j = np.asarray(jax.jit(lambda l, *c: l.pixel2index(*c))(land, *cs))
            if not (np.array_equal(a, b) and np.array_equal(a, j)):
                LOG.violation('C18', 'C18.landscape', 'StokesLandscape/roundtrip/pixel2index', 'pixel2index differs after round trip or under jit')
    guarded('C18.landscape', judge)


def run(ctx: Ctx) -> None:
    drive(ctx, case, 800, 8000, stream=0, part='ops')
    drive(ctx, case_landscape, 60, 400, stream=1, part='landscapes')
