"""C02 workload: expression trees built with the Python arithmetic operators over every operand kind,
each dunder judged by the arith monitor and the final value judged at the client boundary; rejection
of incompatible operands, non-scalar scalars and non-operators."""

from __future__ import annotations

import operator
from typing import Any

import jax
import jax.numpy as jnp
import lineax as lx
import numpy as np

from furax import Config
from furax._base.core import HomothetyOperator, IdentityOperator

from .. import dense, gen, monitors
from ..core import LOG, enable, guarded, quiet
from ..workload import Ctx, drive, generate
from .common import struct_kind

ISOP = lambda z: isinstance(z, lx.AbstractLinearOperator)  # noqa: E731
KINDS = ['atom', 'composition', 'sum', 'identity', 'scalar', 'closed_inverse', 'lazy_inverse', 'block', 'expr']


def operand(rng: Any, s: Any, kind: str | None = None, *, square: bool = False) -> tuple[str, Any]:
    """An operand of the requested kind with input structure s (square: output structure s too)."""
    kind = kind or gen.pick(rng, KINDS)
    b = gen.Budget(2, 3, lazy_inverse=False)
    sq = ('homothety', 'diagonal', 'identity', 'qurot', 'hwp', 'toeplitz')
    if kind == 'atom':
        return kind, gen.atom(rng, s, only=sq if square else None)
    if kind == 'composition':
        if square:
            return kind, gen.atom(rng, s, only=sq) @ gen.atom(rng, s, only=sq)
        return kind, gen.chain(rng, s, int(rng.integers(2, 4)), b, 1)
    if kind == 'sum':
        a = gen.atom(rng, s, only=sq if square else None)
        o = gen.connector(rng, s, a.out_structure())
        if o is None:
            return 'atom', a
        return kind, (a + o if rng.integers(2) else a - o)
    if kind == 'identity':
        return kind, IdentityOperator(s)
    if kind == 'scalar':
        return kind, gen.a_homothety(rng, s)
    if kind == 'closed_inverse':
        d = gen.a_diagonal(rng, s)
        if d is None:
            return 'scalar', gen.a_homothety(rng, s).I
        return kind, d.I
    if kind == 'lazy_inverse':
        # lineax solvers refuse pytrees of mixed dtypes ("Vector and operator structures do not match")
        if dense.size_of(s) > 8 or len({np.dtype(l.dtype) for l in dense.leaves(s)}) > 1:
            return 'scalar', gen.a_homothety(rng, s)
        if gen.is_sds(s):
            a = gen.spd(rng, s)
        else:
            h = gen.a_homothety(rng, s)
            a = HomothetyOperator(jnp.asarray(2.0, dtype=gen.data_dtype(s)), s) + h.T @ h  # (2 + k^2) I: positive definite
        with Config(solver_callback=lambda sol: None):
            return kind, a.I
    if kind == 'block':
        for k in ('blockcol', 'blockdiag', 'blockrow'):
            if square and k != 'blockdiag':
                continue
            e = gen._expr_kind(rng, k, s, gen.Budget(1, 2, lazy_inverse=False), 0)
            if e is not None and dense.size_of(e.out_structure()) <= gen.MAX_SIZE and (
                    not square or dense.struct_eq(e.out_structure(), s)):
                return kind, e
        return 'atom', gen.atom(rng, s, only=sq if square else None)
    e = gen.expr(rng, s, b)
    if square and not dense.struct_eq(e.out_structure(), s):
        e = e.T @ e if 'InverseOperator' not in dense.class_names(e) else gen.a_homothety(rng, s)
    return 'expr', e


def boundary(mon: str, where: str, kind: str, left: Any, right: Any, fn: Any) -> Any:
    """Evaluates a Python arithmetic expression at the client boundary and judges its value."""
    result = fn()
    guarded(mon, lambda: monitors.judge_arith(mon, where, kind, left, right, result))
    return result


def scalar_forms(rng: Any, s: Any) -> Any:
    if rng.integers(4) == 0:
        # values that are not exactly representable in a narrow dtype (pytrees of mixed dtypes: each leaf is scaled in its own precision)
        return float(gen.pick(rng, [0.1, 1 / 3, -0.7, 3.3]))
    k = gen.scalar_value(rng, s)
    if isinstance(k, (np.ndarray, np.floating)) and gen.X64 and gen.data_dtype(s).itemsize < 8:
        if rng.integers(2):
            k = float(k)  # NumPy float64 scalars would widen float32 data (parameters no wider than data)
        else:
            k = np.float32(k)
    return k


def case_tree(rng: Any, ctx: Ctx, index: int) -> None:
    gen.begin_case(rng)
    s = gen.rand_struct(rng)
    mon = 'C02.boundary'
    ka, a = generate(lambda: operand(rng, s))
    cur = a
    trace = [ka]
    for step in range(int(rng.integers(1, 4 if ctx.thorough else 3))):
        op = gen.pick(rng, ['matmul', 'rmatmul', 'add', 'sub', 'mul', 'rmul', 'div', 'neg', 'pos', 'shortcut'])
        if dense.size_of(cur.out_structure()) > gen.MAX_SIZE:
            break
        if op == 'matmul':       # other @ cur
            kb, other = generate(lambda: operand(rng, cur.out_structure()))
            if dense.size_of(other.out_structure()) > gen.MAX_SIZE:
                continue
            cur = boundary(mon, f'{kb}@{trace[-1]}', 'matmul', other, cur, lambda: other @ cur)
        elif op == 'rmatmul':    # cur @ other, other built to end in cur's input structure
            kb, inner = generate(lambda: operand(rng, s if step == 0 else cur.in_structure(), square=True))
            if not dense.struct_eq(inner.out_structure(), cur.in_structure()):
                continue
            cur = boundary(mon, f'{trace[-1]}@{kb}', 'matmul', cur, inner, lambda: cur @ inner)
        elif op in ('add', 'sub'):
            kb = gen.pick(rng, ['atom', 'sum', 'scalar', 'composition', 'identity'])
            other = None
            if dense.struct_eq(cur.in_structure(), cur.out_structure()) and rng.integers(2):
                kb, other = generate(lambda: operand(rng, cur.in_structure(), kb, square=True))
                if not dense.struct_eq(other.out_structure(), cur.out_structure()):
                    other = None
            if other is None:
                kb = 'connector'
                other = generate(lambda: gen.connector(rng, cur.in_structure(), cur.out_structure()))
                if other is None:
                    continue
                if rng.integers(2):
                    other = other + generate(lambda: gen.connector(rng, cur.in_structure(), cur.out_structure()))
                    kb = 'sum'
            if rng.integers(2):
                left, right = cur, other
                w = f'{trace[-1]}{"+" if op == "add" else "-"}{kb}'
            else:
                left, right = other, cur
                w = f'{kb}{"+" if op == "add" else "-"}{trace[-1]}'
            f = operator.add if op == 'add' else operator.sub
            cur = boundary(mon, w, op, left, right, lambda: f(left, right))
        elif op in ('mul', 'rmul', 'div'):
            k = scalar_forms(rng, cur.in_structure())
            c0 = cur
            if op == 'mul':
                cur = boundary(mon, f'{trace[-1]}*k', 'mul', c0, k, lambda: c0 * k)
            elif op == 'rmul':
                cur = boundary(mon, f'k*{trace[-1]}', 'mul', k, c0, lambda: k * c0)
            else:
                cur = boundary(mon, f'{trace[-1]}/k', 'div', c0, k, lambda: c0 / k)
        elif op == 'neg':
            c0 = cur
            cur = boundary(mon, f'-{trace[-1]}', 'neg', c0, None, lambda: -c0)
        elif op == 'pos':
            c0 = cur
            cur = boundary(mon, f'+{trace[-1]}', 'pos', c0, None, lambda: +c0)
        else:  # construction shortcuts
            c0 = cur
            which = gen.pick(rng, ['I@', '@I', 'h@h', 'inv@', '@inv', 'inv@similar', 'inv@(B@A)'])
            if which == 'inv@similar':
                # the inverse of one operator next to a DIFFERENT operator of the same class built from the same array object
                from furax._base.diagonal import DiagonalOperator
                dt = gen.data_dtype(c0.out_structure())
                sq = gen.S((3, 3), dt)
                d = gen.dy(rng, (3,), dt, nonzero=True)
                d0 = DiagonalOperator(d, axis_destination=0, in_structure=sq)
                d1 = DiagonalOperator(d, axis_destination=1, in_structure=sq)
                pair = (d0.I, d1) if rng.integers(2) else (d1, d0.I)
                boundary(mon, 'inverse@same-arrays-other-operator', 'matmul', pair[0], pair[1], lambda: pair[0] @ pair[1])
                LOG.count('C02.shortcut', 'inv@similar')
                continue
            if which == 'inv@(B@A)':
                # the inverse of A next to an already built composition B @ A (A rightmost, i.e. applied first): not a cancellation
                from furax._base.diagonal import DiagonalOperator
                dt = gen.data_dtype(c0.out_structure())
                sq = gen.S((3,), dt)
                d = DiagonalOperator(gen.dy(rng, (3,), dt, nonzero=True, lo=2), in_structure=sq)
                b_ = gen.a_dense(rng, sq)
                inner = b_ @ d
                xinv = d.I
                boundary(mon, 'inverse@(B@operand)', 'matmul', xinv, inner, lambda: xinv @ inner)
                inner2 = d @ b_
                boundary(mon, '(operand@B)@inverse', 'matmul', inner2, xinv, lambda: inner2 @ xinv)
                LOG.count('C02.shortcut', 'inv@(B@A)')
                continue
            if which == 'I@':
                i = IdentityOperator(c0.out_structure())
                cur = boundary(mon, f'identity@{trace[-1]}', 'matmul', i, c0, lambda: i @ c0)
            elif which == '@I':
                i = IdentityOperator(c0.in_structure())
                cur = boundary(mon, f'{trace[-1]}@identity', 'matmul', c0, i, lambda: c0 @ i)
            elif which == 'h@h':
                h1, h2 = gen.a_homothety(rng, c0.out_structure()), gen.a_homothety(rng, c0.out_structure())
                hh = boundary(mon, 'scalar@scalar', 'matmul', h1, h2, lambda: h1 @ h2)
                cur = boundary(mon, f'scalar@{trace[-1]}', 'matmul', hh, c0, lambda: hh @ c0)
            else:
                st = c0.out_structure()
                kx, x = generate(lambda: operand(rng, st, gen.pick(rng, ['closed_inverse', 'lazy_inverse'])))
                if type(x).__name__ not in ('InverseOperator', 'DiagonalInverseOperator'):
                    continue
                base = x.operator
                if which == 'inv@':
                    y = boundary(mon, f'{kx}@operand', 'matmul', x, base, lambda: x @ base)
                else:
                    y = boundary(mon, f'operand@{kx}', 'matmul', base, x, lambda: base @ x)
                LOG.count('C02.shortcut', f'{which}:{type(y).__name__}')
                cur = boundary(mon, f'collapsed@{trace[-1]}', 'matmul', y, c0, lambda: y @ c0)
        trace.append(op)
    LOG.case_key('tree:' + '>'.join(trace) + ':' + struct_kind(s), len(trace) > 1)
    LOG.sample({'ops': trace, 'result': dense.describe(cur)})
    # the final expression applied to a vector: every scalar factor met on the way is judged leaf by leaf, each leaf in its own
    # precision (reference model of the scalar operator; pytrees of mixed dtypes)
    if 'InverseOperator' not in dense.class_names(cur):
        try:
            cur.mv(gen.rand_input(rng, cur.in_structure()))
        except Exception as exc:  # noqa: BLE001
            LOG.count('C02.driver', f'final-apply-raised:{type(exc).__name__}')


def alter(rng: Any, s: Any) -> tuple[str, Any]:
    """A structure that differs from s in one respect."""
    how = gen.pick(rng, ['shape', 'container', 'dtype', 'extra-leaf', 'rank'])
    ls, td = jax.tree.flatten(s)
    if how == 'shape':
        i = int(rng.integers(len(ls)))
        l = ls[i]
        new = gen.S(tuple(d + 1 for d in l.shape) if l.shape else (2,), l.dtype)
        return how, jax.tree.unflatten(td, ls[:i] + [new] + ls[i + 1:])
    if how == 'rank':
        i = int(rng.integers(len(ls)))
        l = ls[i]
        return how, jax.tree.unflatten(td, ls[:i] + [gen.S(tuple(l.shape) + (1,), l.dtype)] + ls[i + 1:])
    if how == 'container':
        if isinstance(s, list):
            return how, tuple(s)
        if isinstance(s, tuple):
            return how, list(s)
        if isinstance(s, dict):
            return how, {k + '_': v for k, v in s.items()}
        return how, [s]
    if how == 'dtype':
        other = np.dtype(np.float64) if gen.X64 else np.dtype(np.float16)
        i = int(rng.integers(len(ls)))
        l = ls[i]
        if np.dtype(l.dtype) == other:
            other = np.dtype(np.float32)
        return how, jax.tree.unflatten(td, ls[:i] + [gen.S(l.shape, other)] + ls[i + 1:])
    return how, (s, gen.S((2,), gen.data_dtype(s)))


def case_reject(rng: Any, ctx: Ctx, index: int) -> None:
    gen.begin_case(rng)
    mon = 'C02.reject'
    s = gen.rand_struct(rng)
    ka, a = generate(lambda: operand(rng, s, gen.pick(rng, ['atom', 'composition', 'sum', 'identity', 'scalar', 'closed_inverse', 'block'])))
    what = gen.pick(rng, ['matmul-left', 'matmul-right', 'add', 'sub', 'nonscalar', 'nonoperator'])
    if what in ('matmul-left', 'matmul-right', 'add', 'sub'):
        how, t = alter(rng, a.out_structure() if what == 'matmul-left' else a.in_structure())
        kb = gen.pick(rng, ['identity', 'scalar', 'atom', 'composition', 'sum'])
        if what == 'matmul-left':      # other @ a with other.in != a.out
            kb, other = generate(lambda: operand(rng, t, kb))
            pair, f = (other, a), (lambda: other @ a)
            compatible = dense.struct_eq(other.in_structure(), a.out_structure())
        elif what == 'matmul-right':   # a @ other with other.out != a.in
            kb, other = generate(lambda: operand(rng, t, kb, square=True))
            pair, f = (a, other), (lambda: a @ other)
            compatible = dense.struct_eq(a.in_structure(), other.out_structure())
        else:
            kb, other = generate(lambda: operand(rng, t, kb))
            if rng.integers(2):
                pair = (a, other)
            else:
                pair = (other, a)
            fop = operator.add if what == 'add' else operator.sub
            f = lambda: fop(*pair)  # noqa: E731
            compatible = dense.struct_eq(a.in_structure(), other.in_structure()) and dense.struct_eq(
                a.out_structure(), other.out_structure())
        key = f'{what}:{type(pair[0]).__name__}|{type(pair[1]).__name__}:{how}'
        LOG.case_key('reject:' + key, True)
        LOG.count('C02.reject.how', how)
        try:
            r = f()
        except ValueError:
            LOG.evaluated(mon)
            if compatible:
                LOG.violation('C02', mon, f'{what}/compatible-refused/{type(pair[0]).__name__}', 'compatible operands raised ValueError',
                              left=dense.describe(pair[0]), right=dense.describe(pair[1]))
            return
        except Exception as exc:  # noqa: BLE001
            LOG.evaluated(mon)
            if not compatible:
                LOG.violation('C02', mon, f'{what}/incompatible-wrong-error/{type(pair[0]).__name__}',
                              f'{type(exc).__name__} instead of ValueError: {str(exc)[:120]}',
                              left=dense.describe(pair[0]), right=dense.describe(pair[1]))
            return
        LOG.evaluated(mon)
        if not compatible:
            LOG.violation('C02', mon, f'{what}/incompatible-accepted/{type(pair[0]).__name__}|{type(pair[1]).__name__}',
                          f'operands with mismatching structures ({how}) yielded an operator',
                          left=dense.describe(pair[0]), right=dense.describe(pair[1]), result=dense.describe(r) if ISOP(r) else repr(r)[:100])
        return
    if what == 'nonscalar':
        k = gen.pick(rng, [np.ones(2, np.float32), jnp.ones((1,)), [1.0, 2.0], np.ones((1, 1), np.float32)])
        form = gen.pick(rng, ['mul', 'rmul', 'div'])
        LOG.case_key(f'reject:nonscalar:{form}:{type(a).__name__}:{type(k).__name__}', True)
        try:
            r = a * k if form == 'mul' else (k * a if form == 'rmul' else a / k)
        except ValueError:
            LOG.evaluated(mon)
            return
        except TypeError:
            LOG.evaluated(mon)  # e.g. list * operator refused by Python itself
            return
        LOG.evaluated(mon)
        if isinstance(r, np.ndarray) and isinstance(k, np.ndarray):
            LOG.count('C02.reject.numpy-dispatch', form)  # NumPy broadcast over the operator object
            return
        LOG.violation('C02', mon, f'{form}/nonscalar-accepted/{type(a).__name__}', f'non-scalar {type(k).__name__}{np.shape(k)} accepted',
                      left=dense.describe(a), result=repr(type(r)))
        return
    other = gen.pick(rng, [3.0, 'x', None, np.ones(3), {'a': 1}])
    form = gen.pick(rng, ['matmul', 'rmatmul', 'add', 'radd', 'sub'])
    LOG.case_key(f'reject:nonoperator:{form}:{type(a).__name__}:{type(other).__name__}', True)
    try:
        if form == 'matmul':
            r = a @ other
        elif form == 'rmatmul':
            r = other @ a
        elif form == 'add':
            r = a + other
        elif form == 'radd':
            r = other + a
        else:
            r = a - other
    except TypeError:
        LOG.evaluated(mon)
        return
    except ValueError as exc:
        LOG.evaluated(mon)
        if isinstance(other, np.ndarray):
            return  # NumPy's own broadcasting of ndarray.__matmul__/__add__ over the operator object
        LOG.violation('C02', mon, f'{form}/nonoperator-wrong-error/{type(a).__name__}', f'ValueError: {str(exc)[:100]}', left=dense.describe(a))
        return
    LOG.evaluated(mon)
    if isinstance(other, np.ndarray) and not ISOP(r):
        return  # ndarray took the operation over (object array): not an operator result
    LOG.violation('C02', mon, f'{form}/nonoperator-accepted/{type(a).__name__}', f'{type(other).__name__} accepted, result {type(r).__name__}',
                  left=dense.describe(a))


def run(ctx: Ctx) -> None:
    enable('arith', 'mvref')
    drive(ctx, case_tree, 2000, 20000, stream=0, part='tree')
    drive(ctx, case_reject, 1500, 15000, stream=1, part='reject')
