"""C10 workload: block row / diagonal / column operators against stacked block matrices."""

from __future__ import annotations

from typing import Any

import jax
import lineax as lx
import numpy as np
import scipy.linalg as sl

from furax._base.blocks import BlockColumnOperator, BlockDiagonalOperator, BlockRowOperator
from furax._base.core import AdditionOperator

from .. import dense, gen
from ..core import LOG, enable, guarded
from ..workload import Ctx, drive, generate

ISOP = lambda z: isinstance(z, lx.AbstractLinearOperator)  # noqa: E731
CLS = {'row': BlockRowOperator, 'diag': BlockDiagonalOperator, 'col': BlockColumnOperator}


def container(rng: Any, blocks: list[Any]) -> tuple[Any, str]:
    n = len(blocks)
    forms = ['list', 'tuple', 'dict']
    if n >= 2:
        forms += ['nested', 'nested-one-side']
    if n == 1:
        forms += ['single', 'nested-single']
    f = gen.pick(rng, forms)
    if f == 'list':
        return list(blocks), f
    if f == 'tuple':
        return tuple(blocks), f
    if f == 'dict':
        return dict(zip(['q', 'b', 'k', 'a', 'z'][:n], blocks)), f
    if f == 'nested':
        return {'y': [blocks[0]], 'x': tuple(blocks[1:])}, f
    if f == 'nested-one-side':
        return [blocks[0], {'m': blocks[1:]}], f
    if f == 'single':
        return blocks[0], f          # a single operator is a pytree (leaf) of operators too
    return [[blocks[0]]], f


def block(rng: Any, s: Any, depth: int = 0) -> tuple[Any, str]:
    kind = gen.pick(rng, ['atom', 'atom', 'composition', 'sum', 'block', 'pytree', 'static'] if depth == 0 else ['atom', 'composition'])
    if kind == 'atom':
        return gen.atom(rng, s), kind
    if kind == 'static':
        # operators without any array parameter (only static fields)
        return gen.atom(rng, s, only=('identity', 'hwp', 'polarizer', 'ravel', 'reshape', 'moveaxis')), kind
    if kind == 'composition':
        return gen.chain(rng, s, 2, gen.Budget(1, 2, False), 1), kind
    if kind == 'sum':
        a = gen.atom(rng, s)
        c = gen.connector(rng, s, a.out_structure())
        return (a + c if c is not None else a), kind
    if kind == 'block':
        e = gen._expr_kind(rng, gen.pick(rng, ['blockcol', 'blockdiag', 'blockrow']), s, gen.Budget(1, 2, False), 0)
        if e is not None and dense.size_of(e.out_structure()) <= 16:
            return e, kind
        return gen.atom(rng, s), 'atom'
    # block whose output is a pytree
    e = gen._expr_kind(rng, 'blockcol', s, gen.Budget(1, 2, False), 0)
    if e is not None and dense.size_of(e.out_structure()) <= 16:
        return e, kind
    return gen.atom(rng, s), 'atom'


def build(rng: Any, which: str) -> tuple[Any, list[Any], str]:
    """A block operator of the given class, its blocks in container-leaf order, and a case key."""
    n = int(gen.pick(rng, [1, 2, 2, 3, 4]))
    u = gen.universe(rng)
    small = [k for k in u if dense.size_of(u[k]) <= 8]
    kinds = []
    all_static = which == 'diag' and rng.integers(5) == 0
    if which == 'diag':
        blocks = []
        for _ in range(n):
            if all_static:
                b, k = gen.atom(rng, u[gen.pick(rng, small)], only=('identity', 'hwp', 'polarizer', 'ravel', 'reshape', 'moveaxis')), 'static'
                blocks.append(b)
                kinds.append(k)
                continue
            b, k = block(rng, u[gen.pick(rng, small)])
            blocks.append(b)
            kinds.append(k)
    elif which == 'col':
        s = u[gen.pick(rng, small)]
        blocks = []
        for _ in range(n):
            b, k = block(rng, s)
            blocks.append(b)
            kinds.append(k)
    else:
        t = u[gen.pick(rng, small)]
        blocks = []
        for _ in range(n):
            s = u[gen.pick(rng, small)]
            c = gen.connector(rng, s, t)
            if c is None:
                raise ValueError('no connector')
            if rng.integers(2):
                pre = gen.atom(rng, s, only=('homothety', 'diagonal', 'hwp', 'qurot', 'identity'))
                c = c @ pre
                kinds.append('composition')
            else:
                kinds.append('connector')
            blocks.append(c)
    cont, cform = container(rng, blocks)
    op = CLS[which](cont)
    ordered = jax.tree.leaves(cont, is_leaf=ISOP)
    return op, ordered, f'{which}:{cform}:arity{n}:' + '+'.join(sorted(set(kinds)))


def stacked(which: str, mats: list[np.ndarray]) -> np.ndarray:
    if which == 'row':
        return np.hstack(mats)
    if which == 'col':
        return np.vstack(mats)
    return sl.block_diag(*mats)


def case(rng: Any, ctx: Ctx, index: int) -> None:
    gen.begin_case(rng)
    which = gen.pick(rng, ['row', 'diag', 'col'])
    op, blocks, key = generate(lambda: build(rng, which))
    if dense.size_of(op.in_structure()) > 40 or dense.size_of(op.out_structure()) > 40:
        return
    nontrivial = len(blocks) >= 2 or any(not gen.is_sds(b.in_structure()) or not gen.is_sds(b.out_structure()) for b in blocks)
    LOG.case_key(key, nontrivial)
    LOG.count('C10.class', which)
    mats = [dense.matrix(b) for b in blocks]
    ref = stacked(which, mats)
    tol = dense.tol_for(op)

    def j_mv() -> None:
        got = dense.matrix(op)
        LOG.evaluated('C10.mv')
        ok, err = dense.close(ref, got, tol)
        if not ok:
            LOG.violation('C10', 'C10.mv', f'Block{which.capitalize()}Operator.mv/matrix/arity{"1" if len(blocks) == 1 else "N"}',
                          f'not the stacked matrix of the blocks (rel err {err:.3g})', expr=dense.describe(op))
    guarded('C10.mv', j_mv)

    def j_asm() -> None:
        got = np.asarray(op.as_matrix(), dtype=np.float64)
        LOG.evaluated('C10.as_matrix')
        ok, err = dense.close(ref, got, tol)
        if not ok:
            LOG.violation('C10', 'C10.as_matrix', f'Block{which.capitalize()}Operator.as_matrix/matrix', f'rel err {err:.3g}', expr=dense.describe(op))
    guarded('C10.as_matrix', j_asm)

    def j_T() -> None:
        t = op.T
        exp_cls = {'row': BlockColumnOperator, 'col': BlockRowOperator, 'diag': BlockDiagonalOperator}[which]
        LOG.evaluated('C10.transpose')
        if type(t) is not exp_cls:
            LOG.violation('C10', 'C10.transpose', f'Block{which.capitalize()}Operator.T/class', f'{type(t).__name__}', expr=dense.describe(op))
            return
        tb = jax.tree.leaves(t.blocks, is_leaf=ISOP)
        for b, bt in zip(blocks, tb):
            ok, _ = dense.close(dense.matrix(b).T, dense.matrix(bt), tol)
            if not ok:
                LOG.violation('C10', 'C10.transpose', f'Block{which.capitalize()}Operator.T/blocks', 'blocks of the transpose are not the transposed blocks',
                              expr=dense.describe(op))
                return
        ok, err = dense.close(ref.T, dense.matrix(t), tol)
        if not ok:
            LOG.violation('C10', 'C10.transpose', f'Block{which.capitalize()}Operator.T/matrix', f'rel err {err:.3g}', expr=dense.describe(op))
    if 'InverseOperator' not in dense.class_names(op):
        guarded('C10.transpose', j_T)

    def j_reduce() -> None:
        r = op.reduce()
        LOG.evaluated('C10.reduce')
        LOG.count('C10.reduce', f'{which}->{type(r).__name__}')
        if not (dense.struct_eq_loose(r.in_structure(), op.in_structure()) and dense.struct_eq_loose(r.out_structure(), op.out_structure())):
            LOG.violation('C10', 'C10.reduce', f'Block{which.capitalize()}Operator.reduce/structures', 'reduce() changed the structures', expr=dense.describe(op),
                          result=dense.describe(r))
            return
        ok, err = dense.close(ref, dense.matrix(r), tol)
        if not ok:
            LOG.violation('C10', 'C10.reduce', f'Block{which.capitalize()}Operator.reduce/matrix', f'reduce() changed the block matrix (rel err {err:.3g})',
                          expr=dense.describe(op), result=dense.describe(r))
    guarded('C10.reduce', j_reduce)
    LOG.sample({'op': dense.describe(op), 'key': key})


def case_inverse(rng: Any, ctx: Ctx, index: int) -> None:
    from .c06 import closed_form
    gen.begin_case(rng)
    n = int(gen.pick(rng, [1, 2, 3]))
    u = gen.universe(rng)
    small = [k for k in u if dense.size_of(u[k]) <= 8]
    blocks = [closed_form(rng, u[gen.pick(rng, small)]) for _ in range(n)]
    blocks = [b if dense.struct_eq(b.in_structure(), b.out_structure()) else gen.a_homothety(rng, b.in_structure()) for b in blocks]
    cont, cform = container(rng, blocks)
    op = BlockDiagonalOperator(cont)
    blocks = jax.tree.leaves(cont, is_leaf=ISOP)  # container-leaf order (dict keys are sorted)
    LOG.case_key(f'inverse:{cform}:arity{n}', n >= 2)

    def j() -> None:
        inv = op.I
        LOG.evaluated('C10.inverse')
        if type(inv) is not BlockDiagonalOperator:
            LOG.violation('C10', 'C10.inverse', 'BlockDiagonalOperator.I/class', type(inv).__name__, expr=dense.describe(op))
            return
        ib = jax.tree.leaves(inv.blocks, is_leaf=ISOP)
        for b, bi in zip(blocks, ib):
            m, mi = dense.matrix(b), dense.matrix(bi)
            ok, err = dense.close(mi @ m, np.eye(len(m)), dense.tol_for(b, bi) * max(1, np.linalg.cond(m)))
            if not ok:
                LOG.violation('C10', 'C10.inverse', 'BlockDiagonalOperator.I/block', f'block inverse wrong (rel err {err:.3g})', expr=dense.describe(op))
                return
    guarded('C10.inverse', j)


def case_reject(rng: Any, ctx: Ctx, index: int) -> None:
    gen.begin_case(rng)
    u = gen.universe(rng)
    names = sorted(k for k in u if dense.size_of(u[k]) <= 8)
    a, b = gen.pick(rng, names), gen.pick(rng, names)
    if dense.struct_eq(u[a], u[b]):
        return
    which = gen.pick(rng, ['row', 'col'])
    LOG.case_key(f'reject:{which}', True)
    try:
        if which == 'col':
            BlockColumnOperator([gen.atom(rng, u[a]), gen.atom(rng, u[b])])
        else:
            t1, t2 = u[a], u[b]
            BlockRowOperator([gen.connector(rng, u[a], t1) or gen.a_identity(rng, t1), gen.connector(rng, u[a], t2) or gen.a_identity(rng, t2)])
    except ValueError:
        LOG.evaluated('C10.reject')
        return
    LOG.evaluated('C10.reject')
    LOG.violation('C10', 'C10.reject', f'Block{which.capitalize()}Operator.__init__/mismatch-accepted',
                  'blocks with mismatching shared structures accepted', a=dense.struct_str(u[a]), b=dense.struct_str(u[b]))


def case_chain(rng: Any, ctx: Ctx, index: int) -> None:
    """A chain with a block pair that cannot be paired block by block followed by a pair of the same classes that can."""
    from .. import patterns
    from .c07 import residue
    if rng.integers(6) == 0:
        # a legal product whose two sides do NOT use the same container layout (the row block takes a pytree that the column
        # produces through a deeper nesting): reduce() must leave it alone or simplify it correctly, never refuse it
        s1 = gen.S((int(rng.integers(2, 4)),), gen.case_dtype(rng))
        x_, y_, b1, b2 = (gen.a_dense(rng, s1) for _ in range(4))
        inner_row = BlockRowOperator([x_, y_])                       # [s1, s1] -> s1
        tag, ops = 'blocks/row@col-different-nesting', [BlockRowOperator({'a': inner_row}), BlockColumnOperator({'a': [b1, b2]})]
    elif rng.integers(4) == 0:
        # row times column whose block products are scalars / identities: the sum of several scalar terms
        from furax._base.core import HomothetyOperator, IdentityOperator
        s0 = gen.S((int(rng.integers(1, 4)),), gen.case_dtype(rng))
        nb = int(rng.integers(2, 4))
        def sc() -> Any:
            return IdentityOperator(s0) if rng.integers(4) == 0 else HomothetyOperator(float(gen.pick(rng, [2.0, 3.0, -1.5, 0.5])), s0)
        col = [sc() for _ in range(nb)]
        row = [sc() for _ in range(nb)]
        keys = ['b', 'a', 'c'][:nb]
        if rng.integers(2):
            tag, ops = 'blocks/row@col-scalar-blocks', [BlockRowOperator(dict(zip(keys, row))), BlockColumnOperator(dict(zip(keys, col)))]
        else:
            tag, ops = 'blocks/row@col-scalar-blocks', [BlockRowOperator(row), BlockColumnOperator(col)]
    elif rng.integers(3) == 0:
        # two block-diagonal operators whose blocks cancel pairwise: the whole chain vanishes, what is left is the identity
        # ON THE STRUCTURE OF THE CHAIN
        tag, ops = generate(lambda: patterns.p_blocks_cancel(rng))
    else:
        tag, ops = generate(lambda: patterns.p_blocks_after_mismatch(rng))
    if any(dense.size_of(o.in_structure()) > 40 or dense.size_of(o.out_structure()) > 40 for o in ops):
        return
    LOG.case_key(f'product:{tag}:{type(ops[-1].blocks).__name__}:arity{len(ops[-1].block_leaves)}', True)

    def j() -> None:
        from furax._base.core import CompositionOperator
        e = CompositionOperator(list(ops))
        try:
            r = e.reduce()
        except Exception as exc:  # noqa: BLE001
            LOG.evaluated('C10.products')
            LOG.violation('C10', 'C10.products', f'{tag}/reduce-raises-{type(exc).__name__}', f'a legal product of block operators cannot be reduced: {str(exc)[:120]}',
                          before=[dense.skeleton(o) for o in ops])
            return
        LOG.evaluated('C10.products')
        LOG.count('C10.products', tag)
        rops = list(r.operands) if isinstance(r, CompositionOperator) else [r]
        for a, b in zip(rops[:-1], rops[1:]):
            if residue(a, b) == 'blocks':
                LOG.violation('C10', 'C10.products', f'{tag}/not-simplified', 'adjacent block operators with the same layout remain in the reduced chain',
                              before=[dense.skeleton(o) for o in ops], after=[dense.skeleton(o) for o in rops])
                return
        if not (dense.struct_eq_loose(r.in_structure(), e.in_structure()) and dense.struct_eq_loose(r.out_structure(), e.out_structure())):
            LOG.violation('C10', 'C10.products', f'{tag}/structures', 'the reduced chain has other structures', before=[dense.skeleton(o) for o in ops])
            return
        exp = None
        for o in ops:
            m = dense.matrix(o)
            exp = m if exp is None else exp @ m
        ok, err = dense.close(exp, dense.matrix(r), dense.tol_for(*ops))
        if not ok:
            LOG.violation('C10', 'C10.products', f'{tag}/matrix', f'rel err {err:.3g}', before=[dense.skeleton(o) for o in ops])
    guarded('C10.products', j)


def case_products(rng: Any, ctx: Ctx, index: int) -> None:
    """(A @ B).reduce() for adjacent block operators with the same layout."""
    from .. import patterns
    gen.begin_case(rng)
    if rng.integers(4) == 0:
        return case_chain(rng, ctx, index)
    tag, (left, right) = generate(lambda: patterns.p_blocks(rng))
    if dense.size_of(left.out_structure()) > 40 or dense.size_of(right.in_structure()) > 40:
        return
    LOG.case_key(f'product:{tag}:{type(left.blocks).__name__}:arity{len(left.block_leaves)}', True)

    def j() -> None:
        r = (left @ right).reduce()
        exp_cls = {'blocks/row@diag': BlockRowOperator, 'blocks/diag@col': BlockColumnOperator,
                   'blocks/diag@diag': BlockDiagonalOperator, 'blocks/row@col': AdditionOperator}[tag]
        LOG.evaluated('C10.products')
        LOG.count('C10.products', tag)
        # a single block pair may legitimately collapse further (identity, single summand)
        if not isinstance(r, exp_cls) and len(left.block_leaves) > 1 and type(r).__name__ not in ('IdentityOperator',):
            LOG.violation('C10', 'C10.products', f'{tag}/class', f'reduced to {type(r).__name__}', left=dense.describe(left), right=dense.describe(right))
            return
        comp = left @ right
        if not (dense.struct_eq_loose(r.in_structure(), comp.in_structure()) and dense.struct_eq_loose(r.out_structure(), comp.out_structure())):
            LOG.violation('C10', 'C10.products', f'{tag}/structures/arity{"1" if len(left.block_leaves) == 1 else "N"}',
                          'the reduced product has other structures than the product', left=dense.describe(left), right=dense.describe(right),
                          result=dense.describe(r))
            return
        ok, err = dense.close(dense.matrix(left) @ dense.matrix(right), dense.matrix(r), dense.tol_for(left, right))
        if not ok:
            LOG.violation('C10', 'C10.products', f'{tag}/matrix', f'rel err {err:.3g}', left=dense.describe(left), right=dense.describe(right))
    guarded('C10.products', j)


def run(ctx: Ctx) -> None:
    drive(ctx, case, 1600, 16000, stream=0, part='blocks')
    if ctx.part in (None, 'extra'):
        def extra(rng: Any, c: Ctx, index: int) -> None:
            (case_inverse, case_reject, case_products)[index % 3](rng, c, index)
        drive(ctx, extra, 1200, 12000, stream=1)
