"""C16 workload: projection and SAT acquisition operators against an explicit NumPy/healpy pointing
model (64-bit mode)."""

from __future__ import annotations

import itertools
from typing import Any

import healpy as hp
import jax
import jax.numpy as jnp
import numpy as np

from furax.detectors import DetectorArray
from furax.instruments.sat import create_acquisition
from furax.landscapes import HealpixLandscape, StokesPyTree
from furax.projections import create_projection_operator
from furax.samplings import Sampling, create_random_sampling

from .. import dense, gen
from ..core import LOG, guarded
from ..workload import Ctx, drive


def rz(a: float) -> np.ndarray:
    c, s = np.cos(a), np.sin(a)
    return np.array([[c, -s, 0], [s, c, 0], [0, 0, 1.0]])


def ry(a: float) -> np.ndarray:
    c, s = np.cos(a), np.sin(a)
    return np.array([[c, 0, s], [0, 1.0, 0], [-s, 0, c]])


def pointing_pixels(nside: int, theta: np.ndarray, phi: np.ndarray, psi: np.ndarray, dirs: np.ndarray) -> tuple[np.ndarray, np.ndarray]:
    """pix[d, m, t] of the direction dirs[:, d, m] rotated by Rz(phi_t) Ry(theta_t) Rz(psi_t), and
    a mask of boundary-ambiguous entries."""
    R = np.stack([rz(phi[t]) @ ry(theta[t]) @ rz(psi[t]) for t in range(len(theta))])      # (nt, 3, 3)
    v = np.einsum('tij,jdm->idmt', R, dirs)                                                # (3, ndet, ndir, nt)
    pix = hp.vec2pix(nside, v[0], v[1], v[2])
    amb = np.zeros(pix.shape, dtype=bool)
    cands = [pix.astype(np.int64)]
    for e in itertools.product((-1e-9, 1e-9), repeat=3):
        w = v + np.array(e)[:, None, None, None]
        c = hp.vec2pix(nside, w[0], w[1], w[2])
        cands.append(c.astype(np.int64))
        amb |= c != pix
    CANDIDATES[id(amb)] = np.stack(cands)          # pixels a direction within 1e-9 of a border may legitimately be assigned to
    return pix.astype(np.int64), amb


CANDIDATES: dict[int, np.ndarray] = {}


def near_border_ok(amb: np.ndarray, got: np.ndarray, expected_for: Any, sel: Any = None) -> np.ndarray:
    """Boolean array: the value read for a border-ambiguous sample equals the model evaluated at ONE of the
    neighbouring candidate pixels (a sample near a border may fall on either side, but nowhere else)."""
    ok = np.zeros(got.shape, dtype=bool)
    for cand in CANDIDATES[id(amb)]:
        cand = cand if sel is None else sel(cand)
        ok |= np.isclose(got, expected_for(cand), rtol=1e-9, atol=1e-10)
    return ok


def make_inputs(rng: Any, nside: int, ndet: int, ndir: int, nt: int, how: str) -> tuple[Sampling, DetectorArray, np.ndarray, np.ndarray, np.ndarray, np.ndarray]:
    if how == 'random-sampling':
        hit = rng.integers(0, 3, size=12 * nside * nside).astype(float)
        hit[int(rng.integers(len(hit)))] = 1.0
        samp = create_random_sampling(jnp.asarray(hit), nt, np.random.default_rng(int(rng.integers(1 << 30))))
        theta, phi, psi = (np.asarray(a, dtype=np.float64) for a in (samp.theta, samp.phi, samp.pa))
    else:
        theta = np.arccos(rng.uniform(-1, 1, nt))
        phi = rng.uniform(-2 * np.pi, 4 * np.pi, nt) if how == 'wrap' else rng.uniform(0, 2 * np.pi, nt)
        psi = rng.uniform(-np.pi, np.pi, nt)
        if how == 'poles':
            theta[: min(nt, 2)] = [0.0, np.pi][: min(nt, 2)]
        if how == 'polar-crossing':
            # a great-circle scan across the pole: the co-latitude runs through zero to negative values (a sampling is a
            # rotation Rz(phi) Ry(theta) Rz(psi), defined for every theta)
            theta = np.linspace(0.5, -0.5, nt) + rng.uniform(-0.05, 0.05)
            phi = np.full(nt, rng.uniform(0, 2 * np.pi))
        samp = Sampling(jnp.asarray(theta), jnp.asarray(phi), jnp.asarray(psi))
    # detector directions around the boresight (z axis)
    x = rng.uniform(-0.3, 0.3, size=(ndet, ndir))
    y = rng.uniform(-0.3, 0.3, size=(ndet, ndir))
    z = np.ones((ndet, ndir))
    if rng.integers(4) == 0:
        x[0, 0], y[0, 0] = 0.0, 0.0
    if how == 'pole-landing':
        # every sample carries one OFF-AXIS detector exactly onto a pole: Rz(psi) turns it into the x-z plane, Ry(theta) onto +-z
        for t in range(nt):
            d, mm = int(rng.integers(ndet)), int(rng.integers(ndir))
            a = np.arctan2(np.hypot(x[d, mm], y[d, mm]), 1.0)
            psi[t] = np.pi - np.arctan2(y[d, mm], x[d, mm])
            theta[t] = a + (np.pi if rng.integers(2) else 0.0)
        samp = Sampling(jnp.asarray(theta), jnp.asarray(phi), jnp.asarray(psi))
    det = DetectorArray(x, y, z)
    dirs = np.stack([x, y, z]) / np.sqrt(x**2 + y**2 + z**2)
    return samp, det, theta, phi, psi, dirs


def stokes_np(x: Any) -> dict[str, np.ndarray]:
    return {c: np.asarray(getattr(x, c.lower()), dtype=np.float64) for c in type(x).stokes}


def case_border(rng: Any, ctx: Ctx, index: int) -> None:
    """A boresight detector pointed 2e-8 rad on either side of a pixel border (found by bisection with healpy), float32 and
    float64 landscapes: the pixel is decided by the float64 direction, whatever the dtype of the map."""
    nside = int(gen.pick(rng, [2, 8, 64, 1024]))
    ldt = gen.pick(rng, [np.float32, np.float64])
    kind = gen.pick(rng, ['I', 'IQU'])
    land = HealpixLandscape(nside, kind, ldt)
    phi0 = float(rng.uniform(0.1, 6.0))
    lo, hi = float(rng.uniform(0.2, 1.4)), None
    p_lo = hp.ang2pix(nside, lo, phi0)
    hi = lo + 4.0 / nside
    while hp.ang2pix(nside, hi, phi0) == p_lo:
        hi += 1.0 / nside
    for _ in range(80):
        mid = 0.5 * (lo + hi)
        if hp.ang2pix(nside, mid, phi0) == p_lo:
            lo = mid
        else:
            hi = mid
    theta = np.array([lo - 2e-8, hi + 2e-8, lo - 5e-8, hi + 5e-8])
    phi = np.full(4, phi0)
    psi = np.zeros(4)
    samp = Sampling(jnp.asarray(theta), jnp.asarray(phi), jnp.asarray(psi))
    det = DetectorArray(np.zeros((1, 1)), np.zeros((1, 1)), np.ones((1, 1)))
    dirs = np.array([0.0, 0.0, 1.0]).reshape(3, 1, 1)
    pix, amb = pointing_pixels(nside, theta, phi, psi, dirs)
    pix, amb = pix[:, 0, :], amb[:, 0, :]
    LOG.case_key(f'border:nside{nside}:{np.dtype(ldt).name}:{kind}', True)

    def judge() -> None:
        P = create_projection_operator(land, samp, det)
        sky = land.normal(jax.random.PRNGKey(int(rng.integers(1 << 30))))
        got = np.asarray(P.mv(sky).i, dtype=np.float64)
        exp = np.asarray(sky.i, dtype=np.float64)[pix]
        LOG.evaluated('C16.projection', pix.size)
        LOG.count('C16.border', f'{np.dtype(ldt).name}')
        bad = (got != exp) & ~amb
        if bad.any():
            LOG.violation('C16', 'C16.projection', f'projection/border-pixel/{np.dtype(ldt).name}-landscape',
                          f'{int(bad.sum())} of 4 directions 2e-8..5e-8 rad from a pixel border are read from the wrong pixel', nside=nside)
    guarded('C16.projection', judge)


def case(rng: Any, ctx: Ctx, index: int) -> None:
    nside = int(gen.pick(rng, [1, 2, 4, 8, 16, 64]))
    kind = gen.pick(rng, ['I', 'QU', 'IQU', 'IQUV'])
    mode = gen.pick(rng, ['projection', 'projection', 'acquisition'])
    ndet = int(rng.integers(1, 7))
    ndir = 1 if mode == 'acquisition' else int(rng.integers(1, 4))
    nt = int(rng.integers(1, 41))
    if index % 9 == 4:
        nt = int(gen.pick(rng, [1025, 1500, 2049, 3000]))   # long scans (more samples than any internal chunk size)
    if index % 7 == 3 and ndet >= 2:
        nt = ndet                                           # as many samples as detectors
    if index % 5 == 2:
        case_border(rng, ctx, index)
    how = gen.pick(rng, ['uniform', 'wrap', 'poles', 'polar-crossing', 'pole-landing', 'random-sampling'])
    land = HealpixLandscape(nside, kind, np.float64)
    samp, det, theta, phi, psi, dirs = make_inputs(rng, nside, ndet, ndir, nt, how)
    pix, amb = pointing_pixels(nside, theta, phi, psi, dirs)
    amb0, sel = amb, None
    if ndir == 1:
        pix, amb = pix[:, 0, :], amb[:, 0, :]
        sel = lambda a: a[:, 0, :]  # noqa: E731
    key = f'{mode}:nside{nside}:{kind}:ndet{min(ndet, 2)}:ndir{ndir}:{how}:{"long" if nt > 1024 else "short"}'
    LOG.case_key(key, len(np.unique(pix)) >= 2)
    sky = land.normal(jax.random.PRNGKey(int(rng.integers(1 << 30))))
    m = stokes_np(sky)
    c2, s2 = np.cos(2 * psi), np.sin(2 * psi)
    npix = 12 * nside * nside

    if mode == 'projection':
        try:
            P = create_projection_operator(land, samp, det)
        except Exception as exc:  # noqa: BLE001
            LOG.evaluated('C16.projection')
            LOG.violation('C16', 'C16.projection', f'projection/construction-raises-{type(exc).__name__}', f'legal inputs refused: {str(exc)[:120]}', config=key)
            return

        def judge() -> None:
            got = stokes_np(P.mv(sky))
            exp = {c: m[c][pix] for c in kind}
            if 'Q' in kind:
                q, u = exp['Q'], exp['U']
                exp['Q'], exp['U'] = q * c2 - u * s2, q * s2 + u * c2
            LOG.evaluated('C16.projection', pix.size)
            LOG.count('C16.boundary-ambiguous', nside, int(amb.sum()))
            for c in kind:
                if got[c].shape != exp[c].shape:
                    LOG.violation('C16', 'C16.projection', 'projection/shape', f'{got[c].shape} vs {exp[c].shape}', config=key)
                    return
                bad = ~np.isclose(got[c], exp[c], rtol=1e-9, atol=1e-10) & ~amb
                if amb.any():
                    def exp_for(pp: np.ndarray, c: str = c) -> np.ndarray:
                        if c == 'Q':
                            return m['Q'][pp] * c2 - m['U'][pp] * s2
                        if c == 'U':
                            return m['Q'][pp] * s2 + m['U'][pp] * c2
                        return m[c][pp]
                    bad |= amb & ~near_border_ok(amb0, got[c], exp_for, sel)
                if bad.any():
                    LOG.violation('C16', 'C16.projection', f'projection/values/{c}/{"multi-dir" if ndir > 1 else "one-dir"}',
                                  f'{int(bad.sum())} of {bad.size} samples differ from the pointing model', config=key)
                    return
        guarded('C16.projection', judge)

        def judge_ptp() -> None:
            if amb.any():
                LOG.skipped('C16.ptp', 'boundary-ambiguous-sample')
                return
            counts = np.bincount(pix.ravel(), minlength=npix).astype(np.float64)
            for name, op in (('unreduced', P.T @ P), ('reduced', (P.T @ P).reduce())):
                got = stokes_np(op.mv(sky))
                LOG.evaluated('C16.ptp')
                for c in kind:
                    if not np.allclose(got[c], counts * m[c], rtol=1e-9, atol=1e-9):
                        LOG.violation('C16', 'C16.ptp', f'PtP/{name}/{"multi-dir" if ndir > 1 else "one-dir"}',
                                      'P.T @ P does not act as the diagonal of hit counts', config=key, result=dense.skeleton(op))
                        return
                if npix * len(kind) <= 48:
                    mat = np.asarray(op.as_matrix(), dtype=np.float64)
                    LOG.evaluated('C16.ptp-as_matrix')
                    if not np.allclose(mat, np.diag(np.tile(counts, len(kind))), atol=1e-9):
                        LOG.violation('C16', 'C16.ptp-as_matrix', f'PtP/{name}/as_matrix', 'as_matrix is not diag(hit counts) per Stokes component', config=key)
                        return
            LOG.count('C16.ptp.reduced-to', dense.skeleton((P.T @ P).reduce()))
        guarded('C16.ptp', judge_ptp)
    else:
        try:
            H = create_acquisition(land, samp, det)
        except Exception as exc:  # noqa: BLE001
            LOG.evaluated('C16.acquisition')
            LOG.violation('C16', 'C16.acquisition', f'acquisition/construction-raises-{type(exc).__name__}/{kind}', f'legal inputs refused: {str(exc)[:120]}', config=key)
            return

        def judge_acq() -> None:
            got = np.asarray(H.mv(sky), dtype=np.float64)
            i = m['I'][pix] if 'I' in kind else 0.0
            q = (m['Q'][pix] * c2 - m['U'][pix] * s2) if 'Q' in kind else 0.0
            exp = 0.5 * (i + q)
            LOG.evaluated('C16.acquisition', pix.size)
            LOG.count('C16.acquisition.form', dense.skeleton(H))
            if got.shape != exp.shape:
                LOG.violation('C16', 'C16.acquisition', 'acquisition/shape', f'{got.shape} vs {exp.shape}', config=key)
                return
            bad = ~np.isclose(got, exp, rtol=1e-9, atol=1e-10) & ~amb
            if amb.any():
                def exp_for(pp: np.ndarray) -> np.ndarray:
                    ii = m['I'][pp] if 'I' in kind else 0.0
                    qq = (m['Q'][pp] * c2 - m['U'][pp] * s2) if 'Q' in kind else 0.0
                    return 0.5 * (ii + qq)
                bad |= amb & ~near_border_ok(amb0, got, exp_for, sel)
            if bad.any():
                LOG.violation('C16', 'C16.acquisition', f'acquisition/values/{kind}', f'{int(bad.sum())} of {bad.size} samples differ from (I + Q cos 2psi - U sin 2psi)/2',
                              config=key, form=dense.skeleton(H))
                return
            # identical before reduction: rebuild the unreduced chain from the same parts
            from furax.operators.hwp import HWPOperator
            from furax.operators.polarizers import LinearPolarizerOperator
            proj = create_projection_operator(land, samp, det)
            unreduced = LinearPolarizerOperator.create((len(det), len(samp)), stokes=kind) @ HWPOperator(proj.out_structure()) @ proj
            got_u = np.asarray(unreduced.mv(sky), dtype=np.float64)
            if not np.allclose(got_u, got, rtol=1e-10, atol=1e-12):
                LOG.violation('C16', 'C16.acquisition', 'acquisition/reduced-vs-unreduced', 'reduction changed the acquisition', config=key)
        guarded('C16.acquisition', judge_acq)
    if how == 'random-sampling':
        LOG.evaluated('C16.random-sampling')
    LOG.sample({'mode': mode, 'nside': nside, 'stokes': kind, 'ndet': ndet, 'ndir': ndir, 'nsamples': nt, 'sampling': how,
                'pixels_hit': int(len(np.unique(pix)))})


def run(ctx: Ctx) -> None:
    drive(ctx, case, 600, 6000)
