"""C15 workload: HWP, QU rotation, linear polariser against explicit Mueller matrices; algebraic
identities and factory methods before and after reduction."""

from __future__ import annotations

from typing import Any

import jax
import jax.numpy as jnp
import numpy as np

from furax._base.core import CompositionOperator, HomothetyOperator
from furax.landscapes import StokesPyTree
from furax.operators.hwp import HWPOperator
from furax.operators.polarizers import LinearPolarizerOperator
from furax.operators.qu_rotations import QURotationOperator

from .. import dense, gen, refmodels
from ..core import LOG, enable, guarded
from ..workload import Ctx, drive


def ref_matrix(op: Any) -> np.ndarray:
    """Dense matrix of the NumPy Mueller model of a polarimetry operator."""
    model = refmodels.MODELS[type(op).__name__][1]
    s = op.in_structure()
    n = dense.size_of(s)
    cols = []
    for j in range(n):
        e = np.zeros(n)
        e[j] = 1
        cols.append(np.concatenate([np.asarray(l, dtype=np.float64).ravel() for l in model(op, dense.unflatten_like(s, e))]))
    return np.stack(cols, axis=1)


def angles(rng: Any, shape: tuple[int, ...], dt: Any) -> tuple[jax.Array, str]:
    forms = {'scalar': (), 'full': shape, 'last': shape[-1:], 'ones': (1,) * len(shape)}
    if len(shape) == 2:
        forms.update({'col': (shape[0], 1), 'row': (1, shape[1])})
    f = gen.pick(rng, sorted(forms))
    kind = gen.pick(rng, ['generic', 'generic', 'special', 'large'])
    if kind == 'special':
        sp = np.array([0, np.pi / 4, -np.pi / 4, np.pi / 2, -np.pi / 2, np.pi, -np.pi])
        v = sp[rng.integers(0, len(sp), size=forms[f])]
    elif kind == 'large':
        v = rng.uniform(-50, 50, size=forms[f])
    else:
        v = rng.uniform(-np.pi, np.pi, size=forms[f])
    return jnp.asarray(v, dtype=dt), f'{f}/{kind}'


def compare(mon: str, where: str, ref: np.ndarray, op: Any, tol: float, **ctx: Any) -> None:
    got = dense.matrix(op)
    LOG.evaluated(mon)
    ok, err = dense.close(ref, got, tol)
    if not ok:
        LOG.violation('C15', mon, where, f'differs from the Mueller product (rel err {err:.3g}, tol {tol:g})', expr=dense.describe(op), **ctx)


def case(rng: Any, ctx: Ctx, index: int) -> None:
    gen.begin_case(rng)
    dt = gen.case_dtype(rng)
    cls = gen.pick(rng, gen.STOKES)
    kind = cls.stokes
    shape = gen.pick(rng, [(3,), (2, 3), (1,), (2, 2)])
    s = cls.structure_for(shape, dt)
    f64 = np.dtype(dt).itemsize == 8
    a, fa = angles(rng, shape, dt)
    b, fb = angles(rng, shape, dt)
    big = 'large' in fa or 'large' in fb
    tol = (1e-9 if f64 else 3e-4) * (40 if big else 1)
    if rng.integers(4) == 0:
        a, b = np.array(a), np.array(b)   # NumPy-array angles are accepted as well
        fa += '/numpy'
    if rng.integers(10) == 0:
        # complex Stokes data (the operators are linear over the complex numbers): only the applications under the reference models
        cs = cls.structure_for(shape, np.complex64)
        cx = jax.tree.map(lambda l: jnp.asarray(np.asarray(gen.dy(rng, l.shape, np.float32)) + 1j * np.asarray(gen.dy(rng, l.shape, np.float32)), dtype=jnp.complex64), cs)
        ca = jnp.asarray(a, dtype=jnp.float32)
        LOG.case_key(f'{kind}:{len(shape)}d:complex-data:{fa}', True)
        LOG.count('C15.complex-data', kind)
        for op in (QURotationOperator(ca, cs), QURotationOperator(ca, cs).T, HWPOperator(cs), LinearPolarizerOperator(cs)):
            op.mv(cx)
        return
    R, Rb, H, P = QURotationOperator(a, s), QURotationOperator(b, s), HWPOperator(s), LinearPolarizerOperator(s)
    x = gen.rand_input(rng, s)
    LOG.case_key(f'{kind}:{len(shape)}d:{fa}:{fb}', 'special' not in fa)
    # 1. every operator applied under the reference-model monitor
    for op in (R, R.T, H, P):
        op.mv(x)
    M = {n: ref_matrix(o) for n, o in (('R', R), ('Rb', Rb), ('RT', R.T), ('RbT', Rb.T), ('H', H), ('P', P))}
    # the matrix form of each operator (as_matrix, whichever implementation the class inherits) is its Mueller matrix too
    def j_asmatrix() -> None:
        if rng.integers(4):
            return                       # (as_matrix compiles one program per operator: one operator in one case out of four)
        for n, o in [(('R', R), ('RT', R.T), ('RT', R.T), ('H', H), ('P', P))[int(rng.integers(5))]]:
            got = np.asarray(o.as_matrix(), dtype=np.float64)
            LOG.evaluated('C15.identity')
            ok, err = dense.close(M[n], got, tol * 4)
            if not ok:
                LOG.violation('C15', 'C15.identity', f'{type(o).__name__}.as_matrix/not-the-Mueller-matrix', f'rel err {err:.3g}', expr=dense.describe(o))
    guarded('C15.identity', j_asmatrix)
    # Mueller sanity of the reference itself: R(a) R(-a) = I
    # 2. identities, before and after reduction
    ident = [
        ('R(a)R(b)', [R, Rb], M['R'] @ M['Rb']),
        ('R(a)R(b).T', [R, Rb.T], M['R'] @ M['RbT']),
        ('R(a).T R(b)', [R.T, Rb], M['RT'] @ M['Rb']),
        ('R(a).T R(b).T', [R.T, Rb.T], M['RT'] @ M['RbT']),
        ('R HWP', [R, H], M['R'] @ M['H']),
        ('R.T HWP', [R.T, H], M['RT'] @ M['H']),
        ('pol HWP', [P, H], M['P'] @ M['H']),
        ('pol R HWP', [P, R, H], M['P'] @ M['R'] @ M['H']),
        ('HWP R HWP', [H, R, H], M['H'] @ M['R'] @ M['H']),
    ]
    name, ops, ref = ident[int(rng.integers(len(ident)))]

    def j_ident() -> None:
        e = CompositionOperator(list(ops))
        compare('C15.identity', f'{name}/unreduced', ref, e, tol)
        r = e.reduce()
        # reduce() must leave its operands alone: the unreduced expression still denotes the same product
        compare('C15.identity', f'{name}/unreduced-after-reduce', ref, e, tol)
        LOG.count('C15.identity', f'{name}->{dense.skeleton(r)}')
        compare('C15.identity', f'{name}/reduced', ref, r, tol)
        # the documented identities themselves, on the reference matrices
        if name == 'R(a)R(b)' and not big:
            ab = QURotationOperator(a + b, s)
            compare('C15.identity', 'R(a)R(b)=R(a+b)', ref, ab, tol * 4)
        if name == 'R HWP':
            hr = CompositionOperator([H, QURotationOperator(-a, s)])
            compare('C15.identity', 'R(a)HWP=HWP R(-a)', ref, hr, tol * 2)
        if name == 'pol HWP':
            compare('C15.identity', 'pol HWP=pol', ref, P, tol)
    guarded('C15.identity', j_ident)

    # 3b. factories with float64 angles of large magnitude on float32 Stokes data (64-bit mode): the angle must not lose precision
    def j_factory_wide() -> None:
        if not ctx.x64 or np.dtype(dt).itemsize != 4 or 'Q' not in kind:
            return
        big = np.asarray(rng.uniform(-1e6, 1e6, size=shape[-1:]), dtype=np.float64)
        ref_r = ref_matrix(QURotationOperator(jnp.asarray(big), cls.structure_for(shape, np.float64)))
        h64 = ref_matrix(HWPOperator(cls.structure_for(shape, np.float64)))
        p64 = ref_matrix(LinearPolarizerOperator(cls.structure_for(shape, np.float64)))
        for which, f, ref_f in (('hwp', lambda: HWPOperator.create(shape, dt, kind, angles=jnp.asarray(big)), ref_r.T @ h64 @ ref_r),
                                ('pol', lambda: LinearPolarizerOperator.create(shape, dt, kind, angles=jnp.asarray(big)), p64 @ ref_r),
                                ('qurot', lambda: QURotationOperator.create(shape, dt, kind, angles=jnp.asarray(big)), ref_r)):
            op_f = f()
            x32 = gen.rand_input(rng, s)
            got = np.concatenate([np.asarray(l, np.float64).ravel() for l in jax.tree.leaves(op_f.mv(x32))])
            exp = ref_f @ dense.flatten_np(x32)
            LOG.evaluated('C15.factory')
            LOG.count('C15.factory', which + '-float64-angles')
            if got.shape != exp.shape or np.abs(got - exp).max() > 2e-5 * (1 + np.abs(exp).max()):
                LOG.violation('C15', 'C15.factory', f'{which}.create/float64-angles-large', f'differs from the Mueller product by {np.abs(got - exp).max():.3g}',
                              angles='float64, |a| up to 1e6', stokes=kind)
    guarded('C15.factory', j_factory_wide)

    # 3. factories
    def j_factory() -> None:
        which = gen.pick(rng, ['qurot', 'hwp', 'hwp-none', 'pol', 'pol-none'])
        if which == 'qurot':
            f, ref_f = QURotationOperator.create(shape, dt, kind, angles=a), M['R']
        elif which == 'hwp':
            f, ref_f = HWPOperator.create(shape, dt, kind, angles=a), M['RT'] @ M['H'] @ M['R']
        elif which == 'hwp-none':
            f, ref_f = HWPOperator.create(shape, dt, kind), M['H']
        elif which == 'pol':
            f, ref_f = LinearPolarizerOperator.create(shape, dt, kind, angles=a), M['P'] @ M['R']
        else:
            f, ref_f = LinearPolarizerOperator.create(shape, dt, kind), M['P']
        LOG.count('C15.factory', which)
        if not dense.struct_eq_loose(f.in_structure(), s):
            LOG.evaluated('C15.factory')
            LOG.violation('C15', 'C15.factory', f'{which}.create/structure', 'factory structure is not the requested Stokes structure',
                          got=dense.struct_str(f.in_structure()), expected=dense.struct_str(s))
            return
        compare('C15.factory', f'{which}.create/unreduced', ref_f, f, tol * 2)
        compare('C15.factory', f'{which}.create/reduced', ref_f, f.reduce(), tol * 2)
        # history: the factory result used as a factor of larger products keeps denoting the same operator afterwards
        for side in ('left', 'right'):
            try:
                g = (f @ Rb) if side == 'left' else (Rb @ f)
            except Exception:  # noqa: BLE001
                continue
            compare('C15.factory', f'{which}.create/product-as-{side}-factor', ref_f @ M['Rb'] if side == 'left' else M['Rb'] @ ref_f, g, tol * 3)
            compare('C15.factory', f'{which}.create/after-use-as-{side}-factor', ref_f, f, tol * 2)
    guarded('C15.factory', j_factory)

    # 3c. a factory result used as ONE item of an explicitly constructed chain (a composition nested in a composition)
    def j_nested() -> None:
        f = HWPOperator.create(shape, dt, kind, angles=a)
        e = CompositionOperator([P, Rb, f])
        ref_n = M['P'] @ M['Rb'] @ M['RT'] @ M['H'] @ M['R']
        compare('C15.factory', 'nested-chain(pol,R(b),hwp.create(a))/unreduced', ref_n, e, tol * 3)
        compare('C15.factory', 'nested-chain(pol,R(b),hwp.create(a))/reduced', ref_n, e.reduce(), tol * 3)
    if rng.integers(3) == 0:
        guarded('C15.factory', j_nested)

    # 3d. chains built INSIDE a traced function from traced angle arrays (angles as arguments of a jit)
    def j_traced() -> None:
        form = gen.pick(rng, ['R(a)R(b)', 'R(a)R(b).T', 'R(a).T R(b)', 'R(a).T R(b).T'])
        ref_t = {'R(a)R(b)': M['R'] @ M['Rb'], 'R(a)R(b).T': M['R'] @ M['RbT'], 'R(a).T R(b)': M['RT'] @ M['Rb'], 'R(a).T R(b).T': M['RT'] @ M['RbT']}[form]

        def build(aa: Any, bb: Any) -> Any:
            ra, rb = QURotationOperator(aa, s), QURotationOperator(bb, s)
            return {'R(a)R(b)': lambda: ra @ rb, 'R(a)R(b).T': lambda: ra @ rb.T, 'R(a).T R(b)': lambda: ra.T @ rb, 'R(a).T R(b).T': lambda: ra.T @ rb.T}[form]()
        reduce_it = bool(rng.integers(2))
        LOG.evaluated('C15.identity')
        LOG.count('C15.traced-angles', form)
        try:
            y = jax.jit(lambda aa, bb, xx: (build(aa, bb).reduce() if reduce_it else build(aa, bb)).mv(xx))(jnp.asarray(a), jnp.asarray(b), x)
        except Exception as exc:  # noqa: BLE001
            LOG.violation('C15', 'C15.identity', f'{form}/traced-angles/raises-{type(exc).__name__}',
                          'the product cannot be formed inside a jit whose arguments are the angle arrays: ' + str(exc)[:120])
            return
        exp = ref_t @ dense.flatten_np(x)
        ok, err = dense.close(exp, dense.flatten_np(y), tol * 4)
        if not ok:
            LOG.violation('C15', 'C15.identity', f'{form}/traced-angles/values', f'rel err {err:.3g}')
    if rng.integers(4) == 0 and not big:
        guarded('C15.identity', j_traced)

    # 4. random chain of these operators with scalars and inert operators
    def j_chain() -> None:
        n = int(rng.integers(2, 7 if ctx.thorough else 5))
        ops_c: list[Any] = []
        ref_c = np.eye(dense.size_of(s))
        cur_is_stokes = True
        for _ in range(n):
            k = gen.pick(rng, ['R', 'RT', 'H', 'scalar', 'diag', 'R2'])
            if k == 'R':
                o, m = R, M['R']
            elif k == 'RT':
                o, m = R.T, M['RT']
            elif k == 'R2':
                o, m = Rb, M['Rb']
            elif k == 'H':
                o, m = H, M['H']
            elif k == 'scalar':
                v = float(gen.pick(rng, [-2, -1, 0.5, 2]))
                o, m = HomothetyOperator(jnp.asarray(v, dtype=dt), s), v * np.eye(dense.size_of(s))
            else:
                o = gen.a_diagonal(rng, s)
                m = dense.matrix(o)
            ops_c.insert(0, o)          # applied after the previous ones
            ref_c = m @ ref_c
        if rng.integers(2):
            ops_c.insert(0, P)
            ref_c = M['P'] @ ref_c
        e = CompositionOperator(ops_c) if rng.integers(2) else gen.combine(rng, ops_c)
        compare('C15.chain', 'chain/unreduced', ref_c, e, tol * n)
        compare('C15.chain', 'chain/reduced', ref_c, e.reduce(), tol * n)
    guarded('C15.chain', j_chain)
    LOG.sample({'stokes': kind, 'shape': list(shape), 'angles': fa, 'identity': name})


def case_reject(rng: Any, ctx: Ctx, index: int) -> None:
    bad = gen.pick(rng, ['IQ', 'UQ', 'iqu', '', 'IQUVW', 'V'])
    LOG.case_key(f'reject:{bad}', True)
    for f in (lambda: QURotationOperator.create((3,), np.float32, bad, angles=jnp.zeros(3)),
              lambda: HWPOperator.create((3,), np.float32, bad),
              lambda: LinearPolarizerOperator.create((3,), np.float32, bad)):
        try:
            f()
        except ValueError:
            LOG.evaluated('C15.reject')
            continue
        except Exception as exc:  # noqa: BLE001
            LOG.evaluated('C15.reject')
            LOG.violation('C15', 'C15.reject', f'create/unknown-stokes/wrong-error-{type(exc).__name__}', str(exc)[:100])
            continue
        LOG.evaluated('C15.reject')
        LOG.violation('C15', 'C15.reject', 'create/unknown-stokes/accepted', f'unknown Stokes kind {bad!r} accepted')


def run(ctx: Ctx) -> None:
    enable('mvref')
    drive(ctx, case_reject, 40, 100, stream=1, part='pol')
    drive(ctx, case, 2400, 24000, stream=0, part='pol')
