"""C07 workload: documented patterns embedded at every position of inert contexts; the reduced chain
must contain no forbidden residue (predicates written from the documented patterns, not from the
rule registry) and at most one, correctly placed, scalar factor with the right value."""

from __future__ import annotations

from typing import Any

import jax
import lineax as lx
import numpy as np

from furax._base.core import CompositionOperator

from .. import dense, gen, patterns
from ..core import LOG
from ..workload import Ctx, drive, generate

ISOP = lambda z: isinstance(z, lx.AbstractLinearOperator)  # noqa: E731


def name(o: Any) -> str:
    return type(o).__name__


def is_rot(o: Any) -> bool:
    return name(o) in ('QURotationOperator', 'QURotationTransposeOperator')


def is_block(o: Any) -> bool:
    return name(o) in ('BlockRowOperator', 'BlockDiagonalOperator', 'BlockColumnOperator')


def same_layout(a: Any, b: Any) -> bool:
    return jax.tree.structure(a.blocks, is_leaf=ISOP) == jax.tree.structure(b.blocks, is_leaf=ISOP)


def n_indexed_axes(op: Any) -> list[Any]:
    return [i for i in op.indices if i is not Ellipsis and not (isinstance(i, slice) and i == slice(None))]


def residue(left: Any, right: Any) -> str | None:
    """Name of the documented pattern still present in the adjacent pair (left @ right), or None."""
    nl, nr = name(left), name(right)
    # (i) an operator next to its own lazy inverse
    for a, b in ((left, right), (right, left)):
        if hasattr(a, 'operator') and name(a) in ('InverseOperator', 'DiagonalInverseOperator', 'QURotationTransposeOperator') \
                and a.operator is b:
            return 'inverse'
    # (ii) consecutive rotations
    if is_rot(left) and is_rot(right):
        return 'qurot'
    # (iii) rotation then HWP, (iv) polariser then HWP
    if is_rot(left) and nr == 'HWPOperator':
        return 'qurot_hwp'
    if nl == 'LinearPolarizerOperator' and nr == 'HWPOperator':
        return 'pol_hwp'
    # (v) adjacent block operators with the same layout
    if is_block(left) and is_block(right) and same_layout(left, right):
        pair = (nl, nr)
        if pair in (('BlockRowOperator', 'BlockDiagonalOperator'), ('BlockDiagonalOperator', 'BlockColumnOperator'),
                    ('BlockDiagonalOperator', 'BlockDiagonalOperator'), ('BlockRowOperator', 'BlockColumnOperator')):
            return 'blocks'
    # (vi) P @ P.T for duplicate-free indexing or packing
    if nr == 'TransposeOperator' and right.operator is left:
        if nl == 'PackOperator':
            return 'pack'
        if nl == 'IndexOperator' and (left.unique_indices or all(
                i is Ellipsis or isinstance(i, (int, slice)) or getattr(i, 'dtype', None) == bool for i in left.indices)):
            return 'index_transpose'      # integers, slices, an ellipsis and masks never select an element twice
    # (vii) P.T @ P for a single indexed axis carrying a non-unique integer array
    if nl == 'TransposeOperator' and nr == 'IndexOperator' and left.operator is right and not right.unique_indices:
        idx = n_indexed_axes(right)
        ls = dense.leaves(right.in_structure())
        if len(idx) == 1 and hasattr(idx[0], 'dtype') and idx[0].dtype != bool \
                and len({tuple(l.shape) for l in ls}) == 1 and len({np.dtype(l.dtype) for l in ls}) == 1:
            return 'transpose_index'
    # (viii) reshape/ravel with its own transpose object
    for a, b in ((left, right), (right, left)):
        if name(a) == 'ReshapeTransposeOperator' and a.operator is b:
            return 'reshape'
    # (ix) mutually inverse move-axes
    if nl == 'MoveAxisOperator' and nr == 'MoveAxisOperator' and tuple(left.source) == tuple(right.destination) \
            and tuple(left.destination) == tuple(right.source):
        return 'moveaxis'
    return None


def judge_chain(ops_in: list[Any], result: Any, scalars: list[float], tags: list[str], where: str) -> None:
    mon = 'C07.normal-form'
    ops = list(result.operands) if name(result) == 'CompositionOperator' else [result]
    LOG.evaluated(mon)
    ctx = dict(tags=tags, before=[dense.skeleton(o) for o in ops_in], after=[dense.skeleton(o) for o in ops])
    if len(ops) > 1:
        if any(name(o) == 'IdentityOperator' for o in ops):
            LOG.violation('C07', mon, 'residue/identity', 'an identity factor remains in the reduced chain', **ctx)
        if any(name(o) == 'CompositionOperator' for o in ops):
            pass  # nested compositions built through the constructor are outside this check
    for o in ops:
        if name(o) == 'BlockDiagonalOperator' and all(
                name(b) == 'IdentityOperator' for b in jax.tree.leaves(o.blocks, is_leaf=ISOP)):
            LOG.violation('C07', mon, 'residue/identity-block-diagonal', 'a block-diagonal operator made of identities only remains', **ctx)
            break
    hs = [i for i, o in enumerate(ops) if name(o) == 'HomothetyOperator']
    n_in = sum(1 for o in ops_in if name(o) == 'HomothetyOperator')
    if len(hs) > 1:
        LOG.violation('C07', mon, 'residue/several-scalars', f'{len(hs)} scalar factors remain', **ctx)
    elif n_in >= 1:
        expected = float(np.prod(scalars)) if scalars else None
        if len(hs) == 0:
            if expected is not None and abs(expected - 1.0) > 1e-6:
                LOG.violation('C07', mon, 'scalar/lost', f'the scalar factors (product {expected}) disappeared', **ctx)
        else:
            h = ops[hs[0]]
            if expected is not None and not np.isclose(float(np.asarray(h.value)), expected, rtol=1e-5):
                LOG.violation('C07', mon, 'scalar/value', f'merged scalar {float(np.asarray(h.value))} != product {expected}', **ctx)
            if len(ops) > 1:
                wide = dense.size_of(ops[0].out_structure()) <= dense.size_of(ops[-1].in_structure())
                want = 0 if wide else len(ops) - 1
                if hs[0] != want:
                    LOG.violation('C07', mon, f'scalar/position-{"wide" if wide else "tall"}',
                                  f'scalar factor at position {hs[0]} of {len(ops)}, expected {want} (the side with fewer elements)', **ctx)
    vanishing = ('inverse/', 'index/P@PT', 'pack/', 'reshape/', 'moveaxis/')
    inert_classes = ('DenseBlockDiagonalOperator', 'DiagonalOperator', 'SymmetricBandToeplitzOperator', 'BroadcastDiagonalOperator')
    if len(tags) == 1 and tags[0].startswith(vanishing) and n_in == 0:
        pattern_ops = [o for o in ops_in if name(o) not in inert_classes]
        stable = True
        if tags[0].startswith('inverse/'):
            # only required when the operand is returned unchanged by its own reduce() (X.I.operator is X afterwards)
            inv = [o for o in pattern_ops if hasattr(o, 'operator')]
            stable = len(inv) == 1 and all(o.reduce() is o for o in pattern_ops if o is not inv[0]) and any(inv[0].operator is o for o in pattern_ops)
        if len(pattern_ops) == 2 and stable:       # the two operands of the pattern, everything else is inert: nothing else can fire
            expected = len(ops_in) - 2
            got_len = 0 if (len(ops) == 1 and name(ops[0]) == 'IdentityOperator') else len(ops)
            LOG.count('C07.vanishing', tags[0].split('/')[0])
            if got_len != expected:
                LOG.violation('C07', mon, f'vanishing/{tags[0].split("/")[0]}',
                              f'the pattern must disappear ({len(ops_in)} -> {expected} operands) but {got_len} remain', **ctx)
    # the block-wise products of merged block operators are chains themselves: flattened (a product of a product is the same
    # product), they must not hold a documented pattern either
    def flat(o: Any) -> list[Any]:
        if name(o) == 'CompositionOperator':
            return [x for p in o.operands for x in flat(p)]
        return [o]
    if any(t.startswith('blocks_triple') for t in tags):
        for o in ops:
            if is_block(o):
                for blk in jax.tree.leaves(o.blocks, is_leaf=ISOP):
                    chain_ = flat(blk)
                    for l_, r_ in zip(chain_[:-1], chain_[1:]):
                        w_ = residue(l_, r_)
                        if w_:
                            LOG.violation('C07', mon, f'residue/{w_}/inside-a-merged-block', f'pattern {w_} left inside a block-wise product', **ctx)
                            return
    for pos, (l, r) in enumerate(zip(ops[:-1], ops[1:])):
        what = residue(l, r)
        if what:
            LOG.violation('C07', mon, f'residue/{what}', f'pattern {what} still present at position {pos} of the reduced chain ({where})', **ctx)
            break


def case(rng: Any, ctx: Ctx, index: int) -> None:
    gen.begin_case(rng)
    names = sorted(patterns.PATTERNS)
    rr = ([('blocks', f) for f in range(4)] + [(n, None) for n in names if n not in ('blocks', 'nearmiss')]
          + [('nearmiss', f) for f in range(patterns.N_NEARMISS)])      # documented patterns first: every rule fires early in every shard
    k = 1 + int(rng.integers(3) == 0) + int(rng.integers(6) == 0)
    bare = bool(rng.integers(4) == 0)        # the pattern alone: chains whose operands ALL cancel (the rule must synthesise the identity)
    if bare:
        k = 1
    maxctx = 14 if ctx.thorough else 6

    def build() -> Any:
        segs, tags = [], []
        for j in range(k):
            slot = (index // max(1, ctx.nshards)) % len(rr)
            nm, form = rr[slot] if j == 0 else (names[int(rng.integers(len(names)))], None)
            if nm == 'blocks' and form is not None:
                tag, seg = patterns.p_blocks(rng, form)
            elif nm == 'nearmiss' and form is not None:
                tag, seg = patterns.p_nearmiss(rng, form)
            else:
                tag, seg = patterns.PATTERNS[nm](rng)
            segs.append(seg)
            tags.append(tag)
        n_left = int(rng.integers(0, maxctx // 2 + 1)) * (not bare)
        n_right = int(rng.integers(0, maxctx // 2 + 1)) * (not bare)
        n_mid = int(rng.integers(0, 3)) * (not bare)
        out = patterns.embed(rng, segs, n_left, n_mid, n_right, scalars=int(rng.integers(0, 5)) * (not bare))
        return out, tags, (n_left, n_mid, n_right)

    out, tags, (nl, nm_, nr) = generate(build)
    if out is None:
        LOG.skipped('driver', 'gen-error:no-connector')
        return
    ops, scalars = out
    if len(ops) < 2:
        return
    if gen.well_typed(CompositionOperator(ops)):
        LOG.skipped('driver', 'gen-error:ill-typed')
        return
    wide = dense.size_of(ops[0].out_structure()) <= dense.size_of(ops[-1].in_structure())
    for t in tags:
        LOG.count('C07.pattern', t)
        LOG.count('C07.pattern.position', f'{t.split("/")[0]}@left{nl}/right{nr}')
    LOG.count('C07.scalars', f'{len(scalars)}:{"wide" if wide else "tall"}')
    how = gen.pick(rng, ['ctor', 'matmul'])
    e = CompositionOperator(list(ops)) if how == 'ctor' else gen.combine(rng, list(ops))
    key = '+'.join(sorted(t.split('/')[0] for t in tags)) + f':L{nl}:R{nr}:{"wide" if wide else "tall"}:s{len(scalars)}'
    LOG.case_key(key, (nl + nr + nm_) >= 1 or len(tags) >= 2)
    try:
        r = e.reduce()
    except Exception as exc:  # noqa: BLE001
        LOG.evaluated('C07.normal-form')
        LOG.violation('C07', 'C07.normal-form', f'reduce/raises-{type(exc).__name__}', str(exc)[:200], tags=tags)
        return
    judge_chain(ops, r, scalars, tags, how)
    LOG.sample({'patterns': tags, 'context': [nl, nm_, nr], 'scalars': scalars, 'before': [dense.skeleton(o) for o in ops][:12],
                'after': [dense.skeleton(o) for o in (r.operands if name(r) == 'CompositionOperator' else [r])][:12]})


def run(ctx: Ctx) -> None:
    drive(ctx, case, 6000, 60000)
