"""C14 workload: exhaustive enumeration of explicit two-operand einsum subscripts over a small
alphabet for DenseBlockDiagonalOperator: mv = numpy.einsum, transpose = exact adjoint or ValueError,
and every string satisfying the independent acceptance predicate must be transposable."""

from __future__ import annotations

import itertools
from typing import Any

import jax
import jax.numpy as jnp
import numpy as np

from furax._base.dense import DenseBlockDiagonalOperator

from .. import dense, gen
from ..core import LOG, enable, guarded, quiet
from ..workload import Ctx, drive

SIZES = {'i': 2, 'j': 3, 'k': 4, 'h': 2}
ELL = (2,)


def terms(alphabet: str, lengths: tuple[int, ...]) -> list[str]:
    out = []
    for n in lengths:
        for p in itertools.permutations(alphabet, n):
            w = ''.join(p)
            out.append(w)
            for pos in range(n + 1):
                out.append(w[:pos] + '...' + w[pos:])
    return out


def space(alphabet: str, left_lengths: tuple[int, ...]) -> list[str]:
    L = terms(alphabet, left_lengths)
    R = terms(alphabet, (1, 2))
    return [f'{a},{b}->{c}' for a in L for b in R for c in R]


_cache: dict[str, list[str]] = {}


def strings(name: str) -> list[str]:
    if name not in _cache:
        if name == 'ij':
            _cache[name] = space('ij', (2,))
        elif name == 'ijk':
            ij = set(space('ij', (2,)))
            _cache[name] = [s for s in space('ijk', (2, 3)) if s not in ij]
        else:  # 4-letter batch forms: left operand with 3 letters drawn from {h,i,j}/{h,i,k}..., a sample
            full = space('hijk', (3,))
            _cache[name] = [s for s in full if 'h' in s.split(',')[0]]
    return _cache[name]


def shape_of(term: str, ell: tuple[int, ...] = ELL) -> tuple[int, ...]:
    out: list[int] = []
    i = 0
    while i < len(term):
        if term.startswith('...', i):
            out += list(ell)
            i += 3
        else:
            out.append(SIZES[term[i].lower()])
            i += 1
    return tuple(out)


def predicate(subs: str) -> bool:
    """Independent acceptance predicate: a single contracted axis, a single free block axis, and
    the result with the free letter replaced by the contracted one equals the right operand."""
    left, rest = subs.split(',')
    right, result = rest.split('->')
    L, R, O = (set(t.replace('...', '')) for t in (left, right, result))
    summed = (L & R) - O
    free = (L & O) - R
    if len(summed) != 1 or len(free) != 1:
        return False
    s, f = next(iter(summed)), next(iter(free))
    return result.replace(f, s) == right


def one(subs: str, rng: Any, per_leaf: bool, ell: tuple[int, ...] = ELL, ell_blocks: tuple[int, ...] | None = None) -> None:
    if sum(map(ord, subs)) % 7 == 3:
        # einsum labels may be upper-case letters too
        up = [c for c in 'ijkh' if c in subs][sum(map(ord, subs)) % max(1, len([c for c in 'ijkh' if c in subs]))] if any(c in subs for c in 'ijkh') else None
        if up:
            subs = subs.replace(up, up.upper())
            LOG.count('C14.strings', 'upper-case-label')
    left, rest = subs.split(',')
    right, result = rest.split('->')
    # the ellipsis of the block term may stand for fewer axes than the one of the leaf (NumPy broadcasting)
    bshape, xshape = shape_of(left, ell if ell_blocks is None else ell_blocks), shape_of(right, ell)
    dt = np.float32
    bdt: Any = dt
    if sum(map(ord, subs)) % 5 == 0:
        # blocks strictly wider than the data (NumPy promotion: the result takes the wider type, nothing is narrowed)
        bdt, dt = (np.float64, np.float32) if gen.X64 else (np.float32, np.float16)
        LOG.count('C14.dtypes', f'blocks={np.dtype(bdt).name},data={np.dtype(dt).name}')
    nb = np.asarray(rng.integers(-4, 5, size=bshape), dtype=np.float64)
    nx = np.asarray(rng.integers(-4, 5, size=xshape), dtype=np.float64)
    try:
        ny = np.einsum(subs, nb, nx)
    except Exception:  # noqa: BLE001 - not a valid einsum: not an operator
        LOG.count('C14.strings', 'invalid-einsum')
        return
    if ny.size == 0 or ny.ndim == 0 and False:
        return
    LOG.count('C14.strings', 'valid-einsum')
    stokes_leaves = (not per_leaf) and len(subs) % 5 == 0
    dt2: Any = dt
    if per_leaf and bdt is dt and sum(map(ord, subs)) % 3 == 1:
        # leaves of different dtypes in one pytree, blocks no wider than the narrowest: each leaf keeps its own precision
        bdt, dt, dt2 = (np.float32, np.float32, np.float64) if gen.X64 else (np.float16, np.float16, np.float32)
        LOG.count('C14.dtypes', f'leaves={np.dtype(dt).name}+{np.dtype(dt2).name}')
        bdt = dt
    if per_leaf:
        blocks: Any = [jnp.asarray(nb, dtype=bdt), jnp.asarray(nb[::-1].copy() if nb.ndim else nb, dtype=bdt)]
        s: Any = [gen.S(xshape, dt), gen.S(xshape, dt2)]
    elif stokes_leaves:
        # one shared block array applied to every component of a Stokes container
        from furax.landscapes import StokesQUPyTree
        blocks = jnp.asarray(nb, dtype=bdt)
        s = StokesQUPyTree.structure_for(xshape, dt)
    else:
        blocks = jnp.asarray(nb, dtype=bdt)
        s = gen.S(xshape, dt)
    mon = 'C14.construct'
    try:
        op = DenseBlockDiagonalOperator(blocks, s, subs)
        x = jax.tree.map(lambda l: jnp.asarray(nx, dtype=l.dtype), s)
        y = op.mv(x)                                      # monitored: reference model numpy.einsum
        op(x)                                             # monitored: op(x) is op.mv(x)
        op(jax.tree.map(lambda l: l.astype(jnp.complex64), x))   # also for data wider than the declared structure
        LOG.evaluated(mon)
    except Exception as exc:  # noqa: BLE001
        LOG.evaluated(mon)
        LOG.violation('C14', mon, f'DenseBlockDiagonalOperator/valid-einsum-refused/{type(exc).__name__}',
                      f'numpy.einsum accepts {subs!r}: {str(exc)[:100]}', subscripts=subs)
        return
    accepted_expected = predicate(subs)
    mon = 'C14.transpose'
    try:
        t = op.T
    except ValueError:
        LOG.evaluated(mon)
        LOG.count('C14.transpose', 'rejected')
        LOG.case_key(subs, False)
        if accepted_expected:
            LOG.violation('C14', mon, 'DenseBlockDiagonalOperator.T/transposable-rejected',
                          f'{subs!r} has a single contracted and a single free block axis in matching positions but was rejected',
                          subscripts=subs)
        return
    except Exception as exc:  # noqa: BLE001
        LOG.evaluated(mon)
        LOG.violation('C14', mon, f'DenseBlockDiagonalOperator.T/raises-{type(exc).__name__}', f'{subs!r}: {str(exc)[:100]}', subscripts=subs)
        return
    LOG.count('C14.transpose', 'accepted' + ('' if accepted_expected else '-beyond-predicate'))
    LOG.case_key(subs, True)
    if type(t).__name__ != 'DenseBlockDiagonalOperator':
        # neither an operator with rewritten subscripts nor an error: "strings for which no rewriting exists are rejected"
        LOG.evaluated(mon)
        LOG.violation('C14', mon, f'DenseBlockDiagonalOperator.T/neither-rewritten-nor-rejected/{type(t).__name__}',
                      f'{subs!r}: the transpose is a {type(t).__name__}, not an einsum operator with rewritten subscripts, and no error was raised',
                      subscripts=subs, expected_transposable=accepted_expected)
        return

    def judge() -> None:
        m = dense.matrix(op)
        try:
            mt = dense.matrix(t)
        except Exception as exc:  # noqa: BLE001
            LOG.evaluated(mon)
            LOG.violation('C14', mon, 'DenseBlockDiagonalOperator.T/not-applicable', f'{subs!r} -> {t.subscripts!r}: {str(exc)[:120]}',
                          subscripts=subs, transposed=t.subscripts)
            return
        LOG.evaluated(mon)
        if mt.shape != m.T.shape or not np.array_equal(mt, m.T):
            LOG.violation('C14', mon, 'DenseBlockDiagonalOperator.T/not-adjoint', f'{subs!r} -> {t.subscripts!r} is not the adjoint',
                          subscripts=subs, transposed=t.subscripts, per_leaf=per_leaf)
        if bdt is not dt:
            # blocks wider than the data: the product is promoted, so the transpose cannot map back onto the narrower input dtype
            # (outside "parameters no wider than the data"): shapes only
            shp = lambda st: [tuple(l.shape) for l in dense.leaves(st)]  # noqa: E731
            if shp(t.in_structure()) != shp(op.out_structure()) or shp(t.out_structure()) != shp(op.in_structure()):
                LOG.violation('C14', mon, 'DenseBlockDiagonalOperator.T/structures', f'{subs!r}: shapes not swapped', subscripts=subs)
        elif not (dense.struct_eq_loose(t.in_structure(), op.out_structure()) and dense.struct_eq_loose(t.out_structure(), op.in_structure())):
            LOG.violation('C14', mon, 'DenseBlockDiagonalOperator.T/structures', f'{subs!r}: structures not swapped', subscripts=subs)
    guarded(mon, judge)
    if len(LOG.samples) < 6:
        LOG.sample({'subscripts': subs, 'transposed': t.subscripts, 'blocks': list(bshape), 'x': list(xshape), 'per_leaf': per_leaf})


ELL2 = (3, 2)   # a second ellipsis shape: two broadcast axes, the first as long as the j axis


def case_ij(rng: Any, ctx: Ctx, index: int) -> None:
    subs = strings('ij')[index]
    one(subs, rng, per_leaf=bool(index % 2))
    if '...' in subs:
        one(subs, rng, per_leaf=not bool(index % 2), ell=ELL2)
        if '...' in subs.split(',')[0] and '...' in subs.split(',')[1]:
            one(subs, rng, per_leaf=bool(index % 2), ell=ELL2, ell_blocks=())


def case_ijk(rng: Any, ctx: Ctx, index: int) -> None:
    subs = strings('ijk')[index]
    if not ctx.thorough and ctx.only_index is None:
        # quick tier: seeded 10 % sample of the {i,j,k} space beyond the exhaustive {i,j} part
        if np.random.default_rng([ctx.seed, 14, index]).random() > 0.10:
            return
    one(subs, rng, per_leaf=bool(rng.integers(2)))
    if ctx.thorough and '...' in subs:
        one(subs, rng, per_leaf=bool(rng.integers(2)), ell=ELL2)
        if '...' in subs.split(',')[0] and '...' in subs.split(',')[1]:
            one(subs, rng, per_leaf=bool(rng.integers(2)), ell=ELL2, ell_blocks=())


_batch: list[str] = []


def batch_forms() -> list[str]:
    """Docstring-like batch forms with one or two batch letters: the block term is any permutation of the batch letters
    with i and j, the leaf term any order of the batch letters with j, the result the leaf term with j replaced by i
    (so the independent predicate holds: all of them must be transposable), with an optional trailing/leading ellipsis."""
    if not _batch:
        for batch in ('h', 'hk'):
            for left in itertools.permutations(batch + 'ij'):
                for right in itertools.permutations(batch + 'j'):
                    l, r = ''.join(left), ''.join(right)
                    res = r.replace('j', 'i')
                    _batch.append(f'{l},{r}->{res}')
                    _batch.append(f'{l}...,{r}...->{res}...')
                    _batch.append(f'...{l},...{r}->...{res}')
    return _batch


def case_batch(rng: Any, ctx: Ctx, index: int) -> None:
    one(batch_forms()[index], rng, per_leaf=bool(index % 3 == 0))


def case_h(rng: Any, ctx: Ctx, index: int) -> None:
    one(strings('hijk')[index], rng, per_leaf=bool(rng.integers(4) == 0))


def run(ctx: Ctx) -> None:
    from .. import monitors
    monitors._call_prop.value = 'C14'
    enable('mvref')
    n_ij, n_ijk = len(strings('ij')), len(strings('ijk'))
    LOG.count('C14.space', f'ij={n_ij},ijk={n_ijk}')
    nb = len(batch_forms())
    drive(ctx, case_batch, nb, nb, stream=3, part='ij')
    drive(ctx, case_ij, n_ij, n_ij, stream=0, part='ij')
    drive(ctx, case_ijk, n_ijk, n_ijk, stream=1, part='ijk')
    if ctx.thorough:
        n_h = len(strings('hijk'))
        # every 7th string of the 4-letter batch forms (the docstring forms hij...,hj...->hi... live here)
        drive(ctx, lambda rng, c, i: case_h(rng, c, i * 7), n_h // 7, n_h // 7, stream=2, part='h')
