"""Runs single cases in-process and prints everything the monitors recorded (development aid)."""
import importlib, json, os, sys, time
prop, x64, part, *idx = sys.argv[1:]
os.environ['JAX_ENABLE_X64'] = x64
os.environ.setdefault('JAX_PLATFORMS', 'cpu')
os.environ.setdefault('PYTHONHASHSEED', '0')
import jax
jax.config.update('jax_enable_x64', bool(int(x64)))
import warnings; warnings.filterwarnings('ignore')
from fvm import monitors, core
from fvm.workload import Ctx
monitors.install()
mod = importlib.import_module(f'fvm.workloads.{prop.lower()}')
tier = os.environ.get('VERIF_TIER', 'quick')
for i in idx:
    ctx = Ctx(prop=prop, tier=tier, seed=int(os.environ.get('VERIF_SEED', 0)), x64=int(x64), shard=0, nshards=1,
              deadline=time.time() + 1e6, only_index=int(i), part=None if part == '-' else part)
    mod.run(ctx)
    if core.LOG.violations and os.environ.get('FVM_STOP_AT_FIRST'):
        break
d = core.LOG.dump()
for v in d['violations']:
    print('VIOLATION', v['key'], v['msg'], v['case']); [print('    ', k, ':', str(x)[:2000]) for k, x in v['detail'].items()]
print(json.dumps(d['counters'], indent=1))
for n in d['notes']: print(n)
print(d['samples'][:3])
