"""Monitors installed on the unmodified furax classes (from outside the repository).

Groups (switched on per check with ``core.enable``):
  reduce     C01  every ``reduce`` and every rule firing preserves structures and the dense map
  transpose  C03  every ``transpose`` returns the exact adjoint
  asmatrix   C04  every ``as_matrix`` equals the reference dense form
  structure  C05  every ``mv`` result has the declared output structure
  inverse    C06  every ``inverse`` inverts
  arith      C02  every arithmetic dunder denotes matrix arithmetic
"""

from __future__ import annotations

import importlib
import pkgutil
from typing import Any

import jax
import lineax as lx
import numpy as np

from . import dense
from .core import LOG, NonTermination, OracleError, guarded, quiet, wrap

_installed = [False]


def all_operator_classes() -> list[type]:
    import furax
    from furax._base.core import AbstractLinearOperator

    for m in pkgutil.walk_packages(furax.__path__, 'furax.'):
        try:
            importlib.import_module(m.name)
        except Exception:  # noqa: BLE001 - optional dependencies
            pass
    out: list[type] = []
    seen: set[type] = set()

    def rec(c: type) -> None:
        for sub in c.__subclasses__():
            if sub in seen:
                continue
            seen.add(sub)
            if sub.__module__.startswith('furax.'):
                out.append(sub)
            rec(sub)

    out.append(AbstractLinearOperator)
    rec(AbstractLinearOperator)
    return out


def all_rule_classes() -> tuple[list[type], list[type]]:
    from furax._base import rules

    binary: list[type] = []
    seen: set[type] = set()

    def rec(c: type) -> None:
        for sub in c.__subclasses__():
            if sub in seen:
                continue
            seen.add(sub)
            binary.append(sub)
            rec(sub)

    rec(rules.AbstractBinaryRule)
    for r in rules.BINARY_RULE_REGISTRY:
        if type(r) not in seen:
            binary.append(type(r))
            seen.add(type(r))
    nary = [rules.AlgebraicReductionRule, rules.HomothetyRule, rules.IdentityRule]
    return binary, nary


# ---- shared judgement ---------------------------------------------------------------------------


def is_tracer(x: Any) -> bool:
    return any(isinstance(l, jax.core.Tracer) for l in jax.tree.leaves(x))


def structure_verdict(a: Any, b: Any) -> str:
    """'equal' | 'weak-only' | 'different'"""
    if dense.struct_eq(a, b):
        return 'equal'
    if dense.struct_eq_loose(a, b):
        return 'weak-only'
    return 'different'


def judge_same_map(prop: str, mon: str, where: str, before: Any, after: Any, **ctx: Any) -> None:
    """before and after must have equal structures and equal dense forms."""
    if not dense.is_furax(before) or not dense.is_furax(after):
        LOG.skipped(mon, 'foreign')
        return
    if not dense.in_domain(before):
        LOG.skipped(mon, 'out-of-domain:dtype-unavailable')
        return
    for side in ('in_structure', 'out_structure'):
        v = structure_verdict(getattr(before, side)(), getattr(after, side)())
        if v != 'equal':
            LOG.evaluated(mon)
            LOG.violation(
                prop, mon, f'{where}/{side}{"-weak-type-only" if v == "weak-only" else ""}',
                f'{side} changed',
                before=dense.describe(before), after=dense.describe(after),
                s_before=dense.struct_str(getattr(before, side)()),
                s_after=dense.struct_str(getattr(after, side)()), **ctx,
            )
            return
    try:
        mb = dense.matrix(before)
    except OracleError as exc:
        if str(exc) in ('too-large', 'non-real-dtype', 'dtype-unavailable'):
            LOG.skipped(mon, 'out-of-domain:' + str(exc))
            return
        LOG.skipped(mon, 'oracle-before:' + str(exc)[:80], dense.describe(before))
        return
    try:
        ma = dense.matrix(after)
    except OracleError as exc:
        if str(exc) in ('too-large', 'non-real-dtype', 'dtype-unavailable'):
            LOG.skipped(mon, 'out-of-domain:' + str(exc))
            return
        # the original could be applied, the rewritten one cannot: the rewrite changed behaviour
        LOG.evaluated(mon)
        LOG.violation(prop, mon, f'{where}/result-not-applicable', str(exc)[:300],
                      before=dense.describe(before), after=dense.describe(after), **ctx)
        return
    tol = dense.tol_for(before, after)
    ok, err = dense.close(mb, ma, tol)
    LOG.evaluated(mon)
    if not ok:
        LOG.violation(prop, mon, f'{where}/matrix', f'dense forms differ (rel err {err:.3g}, tol {tol:g})',
                      before=dense.describe(before), after=dense.describe(after),
                      m_before=np.array2string(mb, precision=4, threshold=80),
                      m_after=np.array2string(ma, precision=4, threshold=80), **ctx)


def _all_ops(op: Any) -> list[Any]:
    out: list[Any] = []
    dense.walk(op, out.append)
    return out


def compose(ops: list[Any], in_structure: Any) -> Any:
    from furax._base.core import CompositionOperator, IdentityOperator

    if len(ops) == 0:
        return IdentityOperator(in_structure)
    if len(ops) == 1:
        return ops[0]
    return CompositionOperator(list(ops))


# ---- C01: reduce and rules ----------------------------------------------------------------------

_firing_stack: list[list[int]] = []


def h_reduce(orig: Any, self: Any) -> Any:
    mon = 'C01.reduce'
    cls = type(self).__name__
    if not dense.is_furax(self):
        LOG.skipped(mon, 'foreign')
        return orig(self)
    v0 = LOG.nviol
    try:
        result = orig(self)
    except NonTermination:
        raise
    except BaseException as exc:  # NoReduction derives from BaseException
        if LOG.nviol > v0:
            LOG.skipped(mon, 'inner-violation')  # already reported at the innermost call
            raise
        LOG.evaluated(mon)
        LOG.violation('C01', mon, f'{cls}.reduce/raises-{type(exc).__name__}', str(exc)[:300],
                      expr=dense.describe(self))
        raise
    LOG.count('C01.reduce.class', cls)
    if LOG.nviol > v0:
        LOG.skipped(mon, 'inner-violation')
        return result
    if result is self:
        LOG.evaluated(mon)
        LOG.count('C01.reduce.kind', 'returned-self')
        return result
    if not isinstance(result, lx.AbstractLinearOperator):
        LOG.evaluated(mon)
        LOG.violation('C01', mon, f'{cls}.reduce/not-an-operator', repr(type(result)),
                      expr=dense.describe(self))
        return result
    LOG.count('C01.reduce.kind', 'rewritten')
    guarded(mon, lambda: judge_same_map('C01', mon, f'{cls}.reduce', self, result))
    return result


def h_binary_rule(orig: Any, rule: Any, left: Any, right: Any) -> Any:
    from furax._base.rules import NoReduction

    mon = 'C01.rule'
    name = type(rule).__name__
    v0 = LOG.nviol
    try:
        new_ops = orig(rule, left, right)
    except NoReduction:
        raise
    except NonTermination:
        raise
    except BaseException as exc:
        if LOG.nviol > v0:
            LOG.skipped(mon, 'inner-violation')
            raise
        LOG.evaluated(mon)
        LOG.violation('C01', mon, f'{name}.apply/raises-{type(exc).__name__}', str(exc)[:300],
                      left=dense.describe(left), right=dense.describe(right))
        raise
    LOG.count('C01.rule.fired', name)
    LOG.count('C01.rule.pair', f'{type(left).__name__}|{type(right).__name__}')
    if _firing_stack:
        _firing_stack[-1][0] += 1
        if _firing_stack[-1][0] > _firing_stack[-1][1]:
            raise NonTermination(name)
    new_list = list(new_ops)
    if LOG.nviol > v0:
        LOG.skipped(mon, 'inner-violation')
        return new_ops

    def judge() -> None:
        from furax._base.core import CompositionOperator

        before = CompositionOperator([left, right])
        after = compose(new_list, right.in_structure())
        judge_same_map('C01', mon, f'{name}.apply', before, after)

    guarded(mon, judge)
    return new_ops


def h_nary_rule(orig: Any, rule: Any, operands: Any) -> Any:
    mon = 'C01.nary'
    name = type(rule).__name__
    before_list = list(operands)
    top = name == 'AlgebraicReductionRule'
    if top:
        _firing_stack.append([0, 50 * len(before_list) + 50])
    v0 = LOG.nviol
    try:
        try:
            result = orig(rule, operands)
        except NonTermination as exc:
            if top:
                LOG.evaluated(mon)
                LOG.violation('C01', mon, f'{name}.apply/non-termination',
                              f'more than {50 * len(before_list) + 50} rule firings (last: {exc})',
                              operands=[dense.describe(o) for o in before_list])
            raise
        except BaseException as exc:
            if LOG.nviol > v0:
                LOG.skipped(mon, 'inner-violation')
                raise
            LOG.evaluated(mon)
            LOG.violation('C01', mon, f'{name}.apply/raises-{type(exc).__name__}', str(exc)[:300],
                          operands=[dense.describe(o) for o in before_list])
            raise
    finally:
        if top:
            _firing_stack.pop()
    if len(before_list) == 0:
        return result
    if LOG.nviol > v0:
        LOG.skipped(mon, 'inner-violation')
        return result
    after_list = list(result)
    LOG.count('C01.nary.fired', name)
    if len(after_list) == len(before_list) and all(a is b for a, b in zip(after_list, before_list)):
        LOG.evaluated(mon)
        return result

    def judge() -> None:
        ins = before_list[-1].in_structure()
        judge_same_map('C01', mon, f'{name}.apply', compose(before_list, ins), compose(after_list, ins))

    guarded(mon, judge)
    return result


# ---- C03: transpose ------------------------------------------------------------------------------


def h_transpose(orig: Any, self: Any) -> Any:
    mon = 'C03.transpose'
    cls = type(self).__name__
    result = orig(self)
    if not dense.is_furax(self):
        LOG.skipped(mon, 'foreign')
        return result
    if 'InverseOperator' in dense.class_names(self):
        LOG.skipped(mon, 'lazy-solver-inverse')
        return result
    LOG.count('C03.transpose.class', cls)

    def judge() -> None:
        judge_adjoint('C03', mon, f'{cls}.transpose', self, result)

    guarded(mon, judge)
    return result


def judge_adjoint(prop: str, mon: str, where: str, op: Any, opt: Any) -> None:
    if not isinstance(opt, lx.AbstractLinearOperator):
        LOG.evaluated(mon)
        LOG.violation(prop, mon, f'{where}/not-an-operator', repr(type(opt)), expr=dense.describe(op))
        return
    if not dense.in_domain(op):
        LOG.skipped(mon, 'out-of-domain:dtype-unavailable')
        return
    for mine, theirs in (('in_structure', 'out_structure'), ('out_structure', 'in_structure')):
        v = structure_verdict(getattr(opt, mine)(), getattr(op, theirs)())
        if v != 'equal':
            LOG.evaluated(mon)
            LOG.violation(prop, mon, f'{where}/{mine}{"-weak-type-only" if v == "weak-only" else ""}',
                          f'transpose {mine} is not the operator {theirs}',
                          expr=dense.describe(op), result=dense.describe(opt),
                          got=dense.struct_str(getattr(opt, mine)()),
                          expected=dense.struct_str(getattr(op, theirs)()))
            return
    try:
        m = dense.matrix(op)
    except OracleError as exc:
        if str(exc) in ('too-large', 'non-real-dtype', 'dtype-unavailable'):
            LOG.skipped(mon, 'out-of-domain:' + str(exc))
            return
        LOG.skipped(mon, 'oracle-operand:' + str(exc)[:80])
        return
    try:
        mt = dense.matrix(opt)
    except OracleError as exc:
        if str(exc) in ('too-large', 'non-real-dtype', 'dtype-unavailable'):
            LOG.skipped(mon, 'out-of-domain:' + str(exc))
            return
        LOG.evaluated(mon)
        LOG.violation(prop, mon, f'{where}/result-not-applicable', str(exc)[:300],
                      expr=dense.describe(op), result=dense.describe(opt))
        return
    tol = dense.tol_for(op, opt)
    ok, err = dense.close(m.T, mt, tol)
    LOG.evaluated(mon)
    if m.shape[0] == m.shape[1] and np.allclose(m, m.T):
        LOG.count('C03.matrix', 'symmetric')
    else:
        LOG.count('C03.matrix', 'non-symmetric')
    if not ok:
        LOG.violation(prop, mon, f'{where}/matrix', f'not the adjoint (rel err {err:.3g}, tol {tol:g})',
                      expr=dense.describe(op), result=dense.describe(opt),
                      m=np.array2string(m, precision=4, threshold=80),
                      mt=np.array2string(mt, precision=4, threshold=80))


# ---- C04: as_matrix --------------------------------------------------------------------------------


def h_as_matrix(orig: Any, self: Any) -> Any:
    mon = 'C04.as_matrix'
    cls = type(self).__name__
    owner = getattr(orig, '__qualname__', '?').split('.')[0]
    try:
        result = orig(self)
    except BaseException as exc:
        if dense.is_furax(self) and not isinstance(exc, NonTermination):
            def judge_exc() -> None:
                dense.matrix(self)  # the operator can be applied: as_matrix has no reason to fail
                LOG.evaluated(mon)
                LOG.violation('C04', mon, f'{owner}.as_matrix/raises-{type(exc).__name__}',
                              str(exc)[:300], expr=dense.describe(self))
            guarded(mon, judge_exc)
        raise
    if not dense.is_furax(self):
        LOG.skipped(mon, 'foreign')
        return result
    if is_tracer(result):
        LOG.skipped(mon, 'traced')
        return result
    LOG.count('C04.as_matrix.impl', f'{owner}')

    def judge() -> None:
        judge_as_matrix(mon, f'{owner}.as_matrix', self, result)

    guarded(mon, judge)
    return result


def judge_as_matrix(mon: str, where: str, op: Any, result: Any) -> None:
    ref = dense.matrix(op)
    got = np.asarray(result, dtype=np.float64)
    LOG.evaluated(mon)
    if got.shape != ref.shape:
        LOG.violation('C04', mon, f'{where}/shape', f'{got.shape} instead of {ref.shape}',
                      expr=dense.describe(op))
        return
    tol = dense.tol_for(op)
    ok, err = dense.close(ref, got, tol)
    if not ok:
        LOG.violation('C04', mon, f'{where}/matrix', f'as_matrix differs from mv on basis vectors '
                      f'(rel err {err:.3g}, tol {tol:g})', expr=dense.describe(op),
                      ref=np.array2string(ref, precision=4, threshold=80),
                      got=np.array2string(got, precision=4, threshold=80))


# ---- C05: structure of mv results ------------------------------------------------------------------


def h_mv(orig: Any, self: Any, x: Any) -> Any:
    mon = 'C05.mv'
    cls = type(self).__name__
    result = orig(self, x)
    if not dense.is_furax(self):
        LOG.skipped(mon, 'foreign')
        return result

    def judge() -> None:
        # the input must match in_structure (shape/dtype), else the call is outside the property
        if not dense.in_domain(self):
            LOG.skipped(mon, 'out-of-domain:dtype-unavailable')
            return
        if not dense.struct_eq_loose(dense.struct_of(x), self.in_structure()):
            LOG.skipped(mon, 'input-not-in-structure')
            return
        try:
            declared = self.out_structure()
        except RecursionError:
            # this mv call is the one made by out_structure() itself (eval_shape of the same method)
            LOG.skipped(mon, 'called-by-out_structure')
            return
        got = dense.struct_of(result)
        LOG.evaluated(mon)
        LOG.count('C05.mv.class', cls)
        LOG.count('C05.mv.mode', 'traced' if is_tracer(x) or is_tracer(result) else 'eager')
        if not dense.struct_eq_loose(got, declared):
            LOG.violation('C05', mon, f'{cls}.mv/out_structure',
                          'result structure differs from out_structure()',
                          expr=dense.describe(self), declared=dense.struct_str(declared),
                          got=dense.struct_str(got))

    guarded(mon, judge)
    return result


# ---- C06: inverse ------------------------------------------------------------------------------------


def h_inverse(orig: Any, self: Any) -> Any:
    mon = 'C06.inverse'
    cls = type(self).__name__
    square = None
    if dense.is_furax(self):
        with quiet():
            try:
                square = dense.struct_eq(self.in_structure(), self.out_structure())
            except Exception:  # noqa: BLE001
                square = None
    try:
        result = orig(self)
    except ValueError as exc:
        if square is False:
            LOG.evaluated(mon)
            LOG.count('C06.inverse.kind', 'non-square-refused')
        elif square is True:
            LOG.evaluated(mon)
            LOG.violation('C06', mon, f'{cls}.inverse/square-refused', str(exc)[:200],
                          expr=dense.describe(self))
        raise
    if not dense.is_furax(self):
        LOG.skipped(mon, 'foreign')
        return result
    if square is False and type(result).__name__ == 'InverseOperator':
        LOG.evaluated(mon)
        LOG.violation('C06', mon, f'{cls}.inverse/non-square-accepted',
                      'a non-square operator was given a solver-based inverse', expr=dense.describe(self),
                      result=dense.describe(result))
        return result

    def judge() -> None:
        judge_inverse(mon, f'{cls}.inverse', self, result)

    guarded(mon, judge)
    return result


def judge_inverse(mon: str, where: str, op: Any, inv: Any) -> None:
    if not isinstance(inv, lx.AbstractLinearOperator):
        LOG.evaluated(mon)
        LOG.violation('C06', mon, f'{where}/not-an-operator', repr(type(inv)), expr=dense.describe(op))
        return
    if not dense.in_domain(op):
        LOG.skipped(mon, 'out-of-domain:dtype-unavailable')
        return
    for side, other in (('in_structure', 'out_structure'), ('out_structure', 'in_structure')):
        v = structure_verdict(getattr(inv, side)(), getattr(op, other)())
        if v != 'equal':
            LOG.evaluated(mon)
            LOG.violation('C06', mon, f'{where}/{side}{"-weak-type-only" if v == "weak-only" else ""}',
                          f'inverse {side} is not the operator {other}', expr=dense.describe(op),
                          got=dense.struct_str(getattr(inv, side)()),
                          expected=dense.struct_str(getattr(op, other)()))
            return
    m = dense.matrix(op)
    if m.shape[0] != m.shape[1]:
        LOG.skipped(mon, 'sizes-differ')
        return
    lazy = 'InverseOperator' in dense.class_names(inv) and 'InverseOperator' not in dense.class_names(op)
    if m.shape[0] > 0 and np.linalg.matrix_rank(m) < m.shape[0]:
        kind = 'singular'
    else:
        kind = 'lazy' if lazy else 'closed-form'
    if lazy and any(getattr(i, 'dtype', None) == bool for o in _all_ops(op) for i in
                    (getattr(o, 'indices', ()) if type(o).__name__ == 'IndexOperator' else
                     ((o.mask,) if type(o).__name__ == 'PackOperator' else ()))):
        LOG.skipped(mon, 'lazy-operand-boolean-mask')  # cannot be traced by the solver (see C18)
        return
    if lazy and any(type(getattr(o, 'config', None) and o.config.solver).__name__ == 'BiCGStab' for o in _all_ops(inv)
                    if type(o).__name__ == 'InverseOperator'):
        # lineax's BiCGStab breaks down (NaN) on right-hand sides it solves in one step - basis vectors that are
        # eigenvectors, zero vectors; that is the dependency's behaviour: judged on random right-hand sides only
        LOG.skipped(mon, 'lazy-bicgstab-basis-vectors')
        return
    if lazy:
        # the solver-based inverse is only claimed for symmetric positive-definite operands of
        # bounded condition number
        spd = kind != 'singular' and np.allclose(m, m.T, atol=1e-6) and np.linalg.eigvalsh((m + m.T) / 2).min() > 0
        if not spd:
            LOG.skipped(mon, 'lazy-operand-not-spd')
            return
        if np.linalg.cond(m) > 60:
            LOG.skipped(mon, 'lazy-operand-ill-conditioned')
            return
    cond = np.linalg.cond(m) if m.size and kind != 'singular' else 1.0
    try:
        mi = dense.matrix(inv)
    except OracleError as exc:
        LOG.evaluated(mon)
        LOG.violation('C06', mon, f'{where}/result-not-applicable', str(exc)[:300],
                      expr=dense.describe(op), result=dense.describe(inv))
        return
    LOG.evaluated(mon)
    LOG.count('C06.inverse.kind', kind)
    if not np.all(np.isfinite(mi)):
        LOG.violation('C06', mon, f'{where}/non-finite', 'inverse produces NaN/Inf for finite input',
                      expr=dense.describe(op), mi=np.array2string(mi, precision=4, threshold=80))
        return
    tol = dense.tol_for(op, inv) * max(1.0, cond)
    if kind == 'singular' and np.count_nonzero(m - np.diag(np.diag(m))) == 0:
        d = np.diag(m)
        ref = np.diag(np.where(d != 0, 1.0 / np.where(d != 0, d, 1.0), 0.0))   # Moore-Penrose for a diagonal matrix
        rtol = 1e-5 if dense.tol_for(op, inv) > 1e-9 else 1e-11
        if not np.allclose(mi, ref, rtol=rtol, atol=0):
            LOG.violation('C06', mon, f'{where}/pseudo-inverse', 'not the Moore-Penrose pseudo-inverse (reciprocal of every '
                          'non-zero entry, zero elsewhere)', expr=dense.describe(op), d=d.tolist(), got=np.diag(mi).tolist())
        return
    if kind == 'singular':
        ref = np.linalg.pinv(m)
        ok, err = dense.close(ref, mi, tol)
        if not ok:
            LOG.violation('C06', mon, f'{where}/pseudo-inverse', f'not the Moore-Penrose pseudo-inverse '
                          f'(rel err {err:.3g})', expr=dense.describe(op),
                          m=np.array2string(m, precision=4, threshold=80),
                          mi=np.array2string(mi, precision=4, threshold=80))
        return
    if kind == 'closed-form' and np.count_nonzero(m - np.diag(np.diag(m))) == 0:
        # diagonal operand: every entry is inverted on its own, whatever the dynamic range of the others
        ref = np.diag(1.0 / np.diag(m))
        rtol = 1e-5 if dense.tol_for(op, inv) > 1e-9 else 1e-11
        if not np.allclose(mi, ref, rtol=rtol, atol=0):
            LOG.violation('C06', mon, f'{where}/diagonal-entries', 'inverse of a diagonal operator is not the entrywise reciprocal',
                          expr=dense.describe(op), d=np.diag(m).tolist(), got=np.diag(mi).tolist())
        return
    eye = np.eye(m.shape[0])
    ok1, e1 = dense.close(mi @ m, eye, tol)
    ok2, e2 = dense.close(m @ mi, eye, tol)
    if not (ok1 and ok2):
        LOG.violation('C06', mon, f'{where}/matrix', f'A.I A or A A.I is not the identity '
                      f'(rel err {max(e1, e2):.3g}, tol {tol:g}, cond {cond:.3g})',
                      expr=dense.describe(op), result=dense.describe(inv),
                      m=np.array2string(m, precision=4, threshold=80),
                      mi=np.array2string(mi, precision=4, threshold=80))


# ---- C02: arithmetic dunders -----------------------------------------------------------------------

_BIN = {
    '__matmul__': ('matmul', False), '__rmatmul__': ('matmul', True),
    '__add__': ('add', False), '__radd__': ('add', True),
    '__sub__': ('sub', False),
}


def arith_reference(kind: str, a: np.ndarray, b: Any) -> np.ndarray:
    if kind == 'matmul':
        return a @ b
    if kind == 'add':
        return a + b
    if kind == 'sub':
        return a - b
    if kind == 'mul':
        return a * b
    if kind == 'div':
        return a / b
    if kind == 'neg':
        return -a
    if kind == 'pos':
        return a
    raise AssertionError(kind)


def judge_arith(mon: str, where: str, kind: str, left: Any, right: Any, result: Any) -> None:
    """``result`` must denote ``left <kind> right`` (operators or scalars)."""
    isop = lambda z: isinstance(z, lx.AbstractLinearOperator)  # noqa: E731
    for o in (left, right, result):
        if isop(o) and not dense.is_furax(o):
            LOG.skipped(mon, 'foreign')
            return
    if isinstance(result, np.ndarray):
        # NumPy's own binary-operator dispatch took the operation over (object array of operators):
        # no operator was yielded, NumPy semantics are outside the property
        LOG.skipped(mon, 'numpy-dispatch')
        return
    if not isop(result):
        LOG.evaluated(mon)
        LOG.violation('C02', mon, f'{where}/not-an-operator', repr(type(result)))
        return
    if not dense.in_domain(*(o for o in (left, right, result) if isop(o))):
        LOG.skipped(mon, 'out-of-domain:dtype-unavailable')
        return
    ml = dense.matrix(left) if isop(left) else None
    mr = dense.matrix(right) if isop(right) else None
    if kind in ('mul', 'div'):
        scalar = float(np.asarray(right if isop(left) else left))
        ref = arith_reference(kind, ml if isop(left) else mr, scalar)
    elif kind in ('neg', 'pos'):
        ref = arith_reference(kind, ml, None)
    else:
        if kind == 'matmul' and ml.shape[1] != mr.shape[0]:
            LOG.skipped(mon, 'incompatible-operands')
            return
        if kind in ('add', 'sub') and ml.shape != mr.shape:
            LOG.skipped(mon, 'incompatible-operands')
            return
        ref = arith_reference(kind, ml, mr)
    try:
        got = dense.matrix(result)
    except OracleError as exc:
        if str(exc) in ('too-large', 'non-real-dtype', 'dtype-unavailable'):
            LOG.skipped(mon, 'out-of-domain:' + str(exc))
            return
        LOG.evaluated(mon)
        LOG.violation('C02', mon, f'{where}/result-not-applicable', str(exc)[:300],
                      left=_d(left), right=_d(right), result=_d(result))
        return
    # structures implied by the operands
    exp_in = exp_out = None
    if kind == 'matmul':
        exp_in, exp_out = right.in_structure(), left.out_structure()
    elif isop(left):
        exp_in, exp_out = left.in_structure(), left.out_structure()
    elif isop(right):
        exp_in, exp_out = right.in_structure(), right.out_structure()
    LOG.evaluated(mon)
    if exp_in is not None:
        for side, exp in (('in_structure', exp_in), ('out_structure', exp_out)):
            v = structure_verdict(getattr(result, side)(), exp)
            if v != 'equal':
                LOG.violation('C02', mon, f'{where}/{side}{"-weak-type-only" if v == "weak-only" else ""}',
                              'result structure is not the one implied by the operands',
                              left=_d(left), right=_d(right), result=_d(result),
                              got=dense.struct_str(getattr(result, side)()),
                              expected=dense.struct_str(exp))
                return
    tol = dense.tol_for(*(o for o in (left, right, result) if isop(o)))
    if kind in ('mul', 'div'):
        k = right if isop(left) else left
        if getattr(k, 'dtype', None) is not None and np.dtype(k.dtype).itemsize < 8:
            tol = max(tol, 2e-6)  # a float32 scalar limits the accuracy of k*A and A/k
    ok, err = dense.close(ref, got, tol)
    if not ok:
        LOG.violation('C02', mon, f'{where}/matrix', f'not the {kind} of the operands\' matrices '
                      f'(rel err {err:.3g}, tol {tol:g})', left=_d(left), right=_d(right),
                      result=_d(result), ref=np.array2string(ref, precision=4, threshold=80),
                      got=np.array2string(got, precision=4, threshold=80))


def _d(o: Any) -> str:
    return dense.describe(o) if isinstance(o, lx.AbstractLinearOperator) else repr(o)[:80]


def make_dunder_handler(name: str) -> Any:
    mon = 'C02.dunder'

    def handler(orig: Any, self: Any, *args: Any) -> Any:
        owner = getattr(orig, '__qualname__', '?').split('.')[0]
        result = orig(self, *args)
        if result is NotImplemented:
            LOG.count('C02.dunder.handover', f'{owner}.{name}')
            return result
        LOG.count('C02.dunder.answered', f'{owner}.{name}')
        where = f'{owner}.{name}'

        def judge() -> None:
            if name in _BIN:
                kind, reflected = _BIN[name]
                other = args[0]
                left, right = (other, self) if reflected else (self, other)
                judge_arith(mon, where, kind, left, right, result)
            elif name == '__mul__':
                judge_arith(mon, where, 'mul', self, args[0], result)
            elif name == '__rmul__':
                judge_arith(mon, where, 'mul', args[0], self, result)
            elif name == '__truediv__':
                judge_arith(mon, where, 'div', self, args[0], result)
            elif name == '__neg__':
                judge_arith(mon, where, 'neg', self, None, result)
            elif name == '__pos__':
                judge_arith(mon, where, 'pos', self, None, result)

        guarded(mon, judge)
        return result

    return handler


DUNDERS = ['__matmul__', '__rmatmul__', '__add__', '__radd__', '__sub__', '__mul__', '__rmul__',
           '__truediv__', '__neg__', '__pos__']


# ---- reference models on mv (C09, C11-C15) --------------------------------------------------------


def mv_tolerance(op: Any, x: Any, y: Any) -> float:
    sizes = [np.dtype(l.dtype).itemsize // (2 if np.dtype(l.dtype).kind == 'c' else 1) for l in jax.tree.leaves(x) + jax.tree.leaves(y)] or [4]
    name = type(op).__name__
    inexact = name in dense.TRIG or (name == 'SymmetricBandToeplitzOperator' and op.method in ('fft', 'overlap_save'))
    if name == 'DiagonalInverseOperator':
        sizes.append(np.dtype(op.operator._diagonal.dtype).itemsize)   # the reciprocal is taken in the precision of the stored values
    if name == 'SymmetricBandToeplitzOperator' and inexact:
        sizes.append(np.dtype(op.band_values.dtype).itemsize)      # the kernel is transformed in its own precision
    if min(sizes) >= 8:
        return 1e-9 if inexact else 1e-12
    if any(str(getattr(l, 'dtype', '')) == 'bfloat16' for l in jax.tree.leaves(x) + jax.tree.leaves(y)):
        return 1e-1          # 8 significant bits, sums of several products
    if min(sizes) == 2:
        return 2e-2
    return 3e-4 if inexact else 3e-6


def h_mvref(orig: Any, self: Any, x: Any) -> Any:
    from . import refmodels

    y = orig(self, x)
    name = type(self).__name__
    entry = refmodels.MODELS.get(name)
    if entry is None or not type(self).__module__.startswith('furax.'):
        return y
    prop, model = entry
    mon = f'{prop}.mv'
    if is_tracer(x) or is_tracer(y):
        LOG.skipped(mon, 'traced')
        return y

    def judge() -> None:
        exp = model(self, x)
        got = [refmodels._wide(l) for l in jax.tree.leaves(y)]
        LOG.evaluated(mon)
        LOG.count(f'{prop}.mv.class', name)
        if len(exp) != len(got) or any(e.shape != g.shape for e, g in zip(exp, got)):
            LOG.violation(prop, mon, f'{name}.mv/shape', 'result shapes differ from the reference model',
                          expr=dense.describe(self), expected=[list(e.shape) for e in exp],
                          got=[list(g.shape) for g in got])
            return
        tol0 = mv_tolerance(self, x, y)
        xl, yl = jax.tree.leaves(x), jax.tree.leaves(y)
        leafwise = len(xl) == len(yl) == len(exp)      # every modelled class acts leaf by leaf: each leaf is judged in its own precision
        rule = refmodels.DTYPE_RULES.get(name)
        if rule is not None and leafwise:
            for i, (a, b) in enumerate(zip(xl, yl)):
                try:
                    want = rule(self, a, i)
                except Exception:  # noqa: BLE001
                    want = None
                if want is not None and np.dtype(b.dtype) != np.dtype(want):
                    LOG.violation(prop, mon, f'{name}.mv/dtype', f'leaf {i}: result dtype {b.dtype}, promotion of the parameters with the '
                                  f'{a.dtype} leaf gives {want}', expr=dense.describe(self))
                    return
        for i, (e, g) in enumerate(zip(exp, got)):
            tol = mv_tolerance(self, xl[i], yl[i]) if leafwise else tol0
            ok, err = dense.close(e, g, tol)
            if not ok:
                LOG.violation(prop, mon, f'{name}.mv/values', f'differs from the NumPy reference model '
                              f'(rel err {err:.3g}, tol {tol:g})', expr=dense.describe(self),
                              x=[np.asarray(l).tolist() for l in jax.tree.leaves(x)][:3],
                              expected=np.array2string(e, precision=5, threshold=60),
                              got=np.array2string(g, precision=5, threshold=60))
                return

    guarded(mon, judge)
    return y


def h_call(orig: Any, self: Any, x: Any) -> Any:
    """op(x) must return exactly what op.mv(x) returns (same tree, shapes, dtypes, values)."""
    y = orig(self, x)
    if not type(self).__module__.startswith('furax.') or is_tracer(x) or is_tracer(y):
        return y
    mon = 'call.consistency'

    def judge() -> None:
        ref = self.mv(x)
        LOG.evaluated(mon)
        la, ta = jax.tree.flatten(y)
        lb, tb = jax.tree.flatten(ref)
        same = ta == tb and all(a.shape == b.shape and a.dtype == b.dtype and np.array_equal(np.asarray(a), np.asarray(b), equal_nan=True)
                                for a, b in zip(la, lb))
        if not same:
            prop = getattr(_call_prop, 'value', 'C04')
            LOG.violation(prop, mon, f'{type(self).__name__}.__call__/differs-from-mv', 'op(x) is not op.mv(x)', expr=dense.describe(self),
                          call=[f'{a.dtype}{list(a.shape)}' for a in la], mv=[f'{b.dtype}{list(b.shape)}' for b in lb])
    guarded(mon, judge)
    return y


class _CallProp:
    value = 'C04'


_call_prop = _CallProp()


def h_init(orig: Any, self: Any, *args: Any, **kwargs: Any) -> Any:
    from .core import record_client_args, unwrap

    out = orig(self, *args, **kwargs)
    record_client_args(self, unwrap(orig), args, kwargs)
    return out


# ---- installation ----------------------------------------------------------------------------------


def install() -> dict[str, int]:
    """Wraps every furax operator class and rule class.  Idempotent; also picks up classes and
    rules added by a modified tree (registry re-walked at every call)."""
    counts = {'classes': 0, 'methods': 0, 'rules': 0}
    for cls in all_operator_classes():
        counts['classes'] += 1
        for name, group, handler in (
            ('reduce', 'reduce', h_reduce),
            ('transpose', 'transpose', h_transpose),
            ('as_matrix', 'asmatrix', h_as_matrix),
            ('mv', 'structure', h_mv),
            ('inverse', 'inverse', h_inverse),
        ):
            if wrap(cls, name, group, handler):
                counts['methods'] += 1
        for d in DUNDERS:
            if wrap(cls, d, 'arith', make_dunder_handler(d)):
                counts['methods'] += 1
        if wrap(cls, 'mv', 'mvref', h_mvref):
            counts['methods'] += 1
        if wrap(cls, '__init__', 'ctor', h_init):
            counts['methods'] += 1
        if wrap(cls, '__call__', 'mvref', h_call):
            counts['methods'] += 1
    binary, nary = all_rule_classes()
    for rc in binary:
        if wrap(rc, 'apply', 'reduce', h_binary_rule):
            counts['rules'] += 1
    for rc in nary:
        if wrap(rc, 'apply', 'reduce', h_nary_rule):
            counts['rules'] += 1
    from .core import enable
    enable('ctor')
    _installed[0] = True
    return counts
