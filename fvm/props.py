"""Per-property configuration of the checks (workers, budgets, deciding monitors, evidence text)."""

RULES_ALL = [
    'InverseBinaryRule', 'QURotationRule', 'QURotationHWPRule', 'LinearPolarizerHWPRule',
    'BlockRowBlockDiagonalRule', 'BlockDiagonalBlockColumnRule', 'BlockDiagonalBlockDiagonalRule',
    'BlockRowBlockColumnRule', 'IndexTransposeRule', 'TransposeIndexRule', 'PackUnpackRule',
    'ReshapeInverseRule', 'MoveAxisInverseRule',
]

COMMON_ASSUMPTIONS = [
    'operators are applied on CPU through the installed jax/jaxlib; XLA itself is trusted',
    'inputs are finite; parameters are dyadic rationals (exact in float32) unless the operator is inexact by nature',
    'linearity (monitored by C04) turns agreement on the basis vectors into agreement on every input, up to rounding',
    'in_size, out_size <= 24 per generated operator (<= 2^14 matrix entries for the oracle)',
]

PROPS = {
    'C01': {
        'modes': [(0, 1, 'config'), (1, 1, 'config'), (0, 4, 'random'), (0, 4, 'pattern'), (1, 4, 'random'), (1, 4, 'pattern')],
        'budget': {'quick': 60, 'thorough': 420},
        'deciding': {'C01.reduce': (500, 5000), 'C01.rule': (75, 750), 'C01.nary': (75, 750), 'C01.operand-unchanged': (100, 1000)},
        'require_hist': {'quick': {'C01.rule.fired': RULES_ALL}, 'thorough': {'C01.rule.fired': RULES_ALL}},
        'rule': 'cases = seeded random well-typed expression trees (all operator classes, all combinators) and '
                'documented patterns embedded in inert contexts, plus solver-based inverses built inside one solver configuration '
                'and reduced under two others; each case is reduced (also its transpose, its '
                'inverse when closed-form, and the result again) with every nested reduce() and every rule firing '
                'judged separately against the reference dense form; a case key is the expression skeleton (nested '
                'class names + container kinds); non-trivial = at least one rule fired or one reduce() returned a '
                'rewritten operator while reducing it',
        'assumptions': COMMON_ASSUMPTIONS,
        'technique': 'runtime monitors on every reduce() and every rule firing, judged against a reference dense form; seeded expression/pattern workload',
        'level_text': 'exploration: every reduce() call and every rule firing observed while reducing thousands of generated expression trees and embedded patterns is compared (structures + dense matrix on all basis vectors) with the unreduced operand; termination is monitored as bounded progress. Sampled expression space, sizes <= 24.',
        'level_note': 'trusts jax/XLA numerics, the reference densifier (mv on basis vectors, cross-checked eager-loop vs vmap) and linearity of mv (monitored by C04)',
    },
}

CLASSES_T = [
    'AdditionOperator', 'CompositionOperator', 'TransposeOperator', 'IdentityOperator', 'HomothetyOperator',
    'BroadcastDiagonalOperator', 'DiagonalOperator', 'DiagonalInverseOperator', 'DenseBlockDiagonalOperator',
    'IndexOperator', 'PackOperator', 'MoveAxisOperator', 'RavelOperator', 'ReshapeOperator',
    'ReshapeTransposeOperator', 'BlockRowOperator', 'BlockDiagonalOperator', 'BlockColumnOperator',
    'SymmetricBandToeplitzOperator', 'QURotationOperator', 'QURotationTransposeOperator', 'HWPOperator',
    'LinearPolarizerOperator', 'ToastObservationMatrixOperator', 'ToastObservationMatrixTransposeOperator',
]
AS_MATRIX_IMPLS = ['AbstractLinearOperator', 'AdditionOperator', 'AbstractLazyInverseOperator', 'IdentityOperator',
                   'HomothetyOperator', 'DiagonalOperator', 'BlockRowOperator', 'BlockDiagonalOperator',
                   'BlockColumnOperator', 'AbstractRavelOrReshapeOperator', 'SymmetricBandToeplitzOperator']

PROPS['C03'] = {
    'modes': [(0, 8), (1, 8)],
    'budget': {'quick': 60, 'thorough': 400},
    'deciding': {'C03.transpose': (750, 7500), 'C03.bilinear': (125, 1250)},
    'require_hist': {'quick': {'C03.transpose.class': CLASSES_T}, 'thorough': {'C03.transpose.class': CLASSES_T}},
    'rule': 'cases = seeded atoms of every concrete class (every parameter form of the generator) and random composite '
            'expressions; each is transposed, transposed back (and sometimes a third time) with every nested transpose() '
            'call judged: structures swapped and reference dense matrix equal to the transposed reference dense matrix of '
            'the operand; plus <Ax,y>=<x,A.T y> on random vectors through furax.tree.dot. case key = (expression '
            'skeleton, parameter form, structure kind); non-trivial = dense matrix is not a multiple of the identity',
    'assumptions': COMMON_ASSUMPTIONS + ['transposes of the iterative-solver inverse are excluded, as the property states'],
    'technique': 'runtime monitor on every transpose() (hand-written, decorator-installed and derived) with a dense adjoint oracle',
    'level_text': 'exploration: every transpose() observed on thousands of generated operators of all 25 transposable classes and their composites is compared with the transposed reference matrix (all basis vectors, so all x and y by bilinearity); A.T.T judged the same way.',
    'level_note': 'trusts jax/XLA numerics and the reference densifier; sampled operator space, sizes <= 24',
}
PROPS['C04'] = {
    'modes': [(0, 8), (1, 8)],
    'budget': {'quick': 60, 'thorough': 400},
    'deciding': {'C04.as_matrix': (375, 3750), 'C04.linearity': (175, 1750), 'C04.matvec': (175, 1750), 'C04.complex': (40, 400)},
    'require_hist': {'quick': {'C04.as_matrix.impl': AS_MATRIX_IMPLS}, 'thorough': {'C04.as_matrix.impl': AS_MATRIX_IMPLS}},
    'rule': 'cases = seeded atoms and composites; for each, as_matrix() (specialised override) and the generic '
            'AbstractLinearOperator.as_matrix are called under the monitor and compared with mv on all basis vectors; '
            'op(ax+by)=a op(x)+b op(y), op(0)=0, finite output and as_matrix()@x = op(x) are probed on random vectors. '
            'case key = (skeleton, parameter form, structure kind); non-trivial = matrix not a multiple of the identity',
    'assumptions': COMMON_ASSUMPTIONS,
    'technique': 'runtime monitor on every as_matrix() implementation against mv on basis vectors; linearity probes',
    'level_text': 'exploration: all 11 as_matrix implementations are observed on generated operators and compared with the reference dense form; linearity is probed (not proved) on random combinations.',
    'level_note': 'linearity is sampled; it is what turns basis-vector agreement into agreement for all inputs',
}

PROPS['C05'] = {
    'modes': [(0, 8), (1, 8)],
    'budget': {'quick': 60, 'thorough': 400},
    'deciding': {'C05.mv': (2500, 25000), 'C05.declared': (375, 3750), 'C05.sizes': (750, 7500)},
    'require_hist': {'quick': {'C05.mv.mode': ['eager', 'traced'], 'C05.mv.class': CLASSES_T},
                     'thorough': {'C05.mv.mode': ['eager', 'traced'], 'C05.mv.class': CLASSES_T + ['InverseOperator']}},
    'rule': 'cases = seeded atoms and composites in both 64-bit modes (float32, float64 and mixed-dtype pytrees with x64 on); '
            'every mv call - outermost and nested, eager, under eval_shape and under jit - is observed and the treedef, leaf '
            'shapes and leaf dtypes of its result compared with out_structure() of the operator that produced it; declared '
            'structures of every composite are compared with those implied by its parts, also for .T, .reduce(), .I; '
            'in_size/out_size/promoted dtypes recomputed from the structures. case key = (skeleton, dtype layout, x64, '
            'structure kind); non-trivial = out_structure is an override (not eval_shape of the same mv)',
    'assumptions': COMMON_ASSUMPTIONS + ['operator parameters are generated no wider than the data dtype (the bound the property states)',
                                         'weak_type differences are ignored when comparing an mv result with the declared structure'],
    'technique': 'runtime monitor on every mv() (eager and traced) comparing the result structure with out_structure(); driver-side recomputation of implied structures',
    'level_text': 'exploration: every mv observed (>10^4 per run, all 26 classes, eager and traced) returns the declared structure; composite structures equal those implied by parts; both 64-bit modes.',
    'level_note': 'sampled operator space; float64-declared structures with x64 off are outside the domain (no JAX array can match them)',
}

PROPS['C06'] = {
    'modes': [(0, 3, 'closed'), (0, 1, 'pinv'), (0, 1, 'refuse'), (0, 3, 'lazy'),
              (1, 3, 'closed'), (1, 1, 'pinv'), (1, 1, 'refuse'), (1, 3, 'lazy')],
    'budget': {'quick': 70, 'thorough': 420},
    'deciding': {'C06.inverse': (375, 3000), 'C06.roundtrip': (100, 750), 'C06.lazy-solve': (10, 100),
                 'C06.pinv-finite': (25, 200)},
    'require_hist': {'quick': {'C06.inverse.kind': ['closed-form', 'singular', 'lazy', 'non-square-refused']},
                     'thorough': {'C06.inverse.kind': ['closed-form', 'singular', 'lazy', 'non-square-refused'],
                                  'C06.lazy.solver': ['CG-1e-3', 'CG-1e-5', 'CG-default', 'BiCGStab', 'GMRES', 'NormalCG', 'Cholesky', 'LU']}},
    'rule': 'cases = (closed) scalars, diagonals on every axis form, identities, QU rotations and their transposes, axis '
            'permutations and (nested) block-diagonals of those; (pinv) diagonals with zero entries; (refuse) non-square '
            'operators; (lazy) SPD operators with condition number <= 50 inverted under 8 solver settings. Every inverse() '
            'call - also nested ones - is judged: A.I A = I = A A.I on the reference dense forms (pseudo-inverse and '
            'finiteness when singular), A.I.I = A, residual |A z - y| <= 10 (atol + rtol |y|) cond(A) for the configured '
            'tolerances, as_matrix of the lazy inverse = matrix inverse. case key = (inverse kind, operand skeleton, solver, '
            'structure kind); non-trivial = operand is not +-identity',
    'assumptions': COMMON_ASSUMPTIONS + ['lazy inverses only for symmetric positive-definite operands with condition number <= 50',
                                         'float32 solves are judged at max(configured tolerance, 3e-6)'],
    'technique': 'runtime monitor on every inverse() with dense A.I A = I / pseudo-inverse oracle; residual oracle on solver-based inverses',
    'level_text': 'exploration: every inverse() observed is checked on the dense forms; lazy inverses are applied through the real solver (jit) and the residual is compared with the configured tolerance; 8 solver settings.',
    'level_note': 'convergence is claimed only for well-conditioned SPD operands, as the property states',
}

PROPS['C02'] = {
    'modes': [(0, 6, 'tree'), (0, 2, 'reject'), (1, 6, 'tree'), (1, 2, 'reject')],
    'budget': {'quick': 60, 'thorough': 400},
    'deciding': {'C02.boundary': (375, 3750), 'C02.dunder': (375, 3750), 'C02.reject': (100, 1000), 'C02.mv': (100, 1000)},
    'require_hist': {'quick': {'C02.reject.how': ['shape', 'container', 'dtype', 'extra-leaf', 'rank']},
                     'thorough': {'C02.reject.how': ['shape', 'container', 'dtype', 'extra-leaf', 'rank']}},
    'rule': 'cases = (tree) expression trees of 1-3 arithmetic steps (@ on either side, +, -, k*, *k, /k, unary +-, construction '
            'shortcuts I@B, B@I, scalar@scalar, A.I@A, A@A.I) over operand kinds atom/composition/sum/identity/scalar/closed-form '
            'inverse/lazy inverse/block/random expression, scalars as Python, NumPy and JAX values; every dunder that answers is '
            'judged, and the value of the Python expression is judged at the boundary, against NumPy arithmetic on the reference '
            'dense forms; (reject) operands altered in shape, rank, container type, dtype or leaf count must raise ValueError, '
            'non-scalar scalars ValueError, non-operators TypeError. case key = (operation trace or rejection form, operand '
            'classes, structure kind); non-trivial = at least one arithmetic step / any rejection case',
    'assumptions': COMMON_ASSUMPTIONS + ['NumPy float64 scalars multiplying float32 operators in 64-bit mode are not generated (parameters no wider than data)'],
    'technique': 'runtime monitor on every arithmetic dunder plus client-boundary oracle (NumPy arithmetic on reference dense forms); rejection oracle computed from the operand structures',
    'level_text': 'exploration: thousands of arithmetic expressions over all operand kinds and groupings are judged against matrix arithmetic; incompatible operands must be rejected.',
    'level_note': 'sampled expression shapes; lazy inverses restricted to small SPD operands',
}

PROPS['C12'] = {
    'modes': [(0, 6, 'index'), (0, 2, 'pack'), (1, 6, 'index'), (1, 2, 'pack')],
    'budget': {'quick': 60, 'thorough': 400},
    'deciding': {'C12.mv': (375, 3750), 'C12.construct': (500, 5000), 'C12.transpose': (250, 2500),
                 'C12.products': (200, 2000)},
    'require_hist': {'quick': {'C12.construct.how': ['with', 'without'], 'C12.ptp.result': ['DiagonalOperator'],
                               'C12.ppt.result': ['IdentityOperator'], 'C12.ppt.duplicates': ['True', 'False']},
                     'thorough': {'C12.construct.how': ['with', 'without'], 'C12.ptp.result': ['DiagonalOperator'],
                                  'C12.ppt.result': ['IdentityOperator'], 'C12.ppt.duplicates': ['True', 'False']}},
    'rule': 'cases = in-bounds index expressions mixing ints (negative too), slices (any start/stop/step), an ellipsis at any '
            'position, integer arrays of rank 1-2 (negative and repeated entries, int16/int32), boolean masks, on leaves of rank '
            '1-3 and on list/dict/tuple/Stokes pytrees; built with and without out_structure; every mv observed is compared with '
            'numpy x[indices], P.T.mv with np.add.at into zeros, (P.T@P).reduce() and (P@P.T).reduce() with the reference products '
            '(identity only when duplicate-free); pack operators likewise with leaf[mask]. case key = (index form per axis, leaf '
            'rank, structure kind); non-trivial = contains an array, a mask or a negative entry',
    'assumptions': COMMON_ASSUMPTIONS + ['unique_indices=True is only passed for arrays that are duplicate-free (a broken precondition is never generated)',
                                         'at most one group of broadcast-compatible advanced indices per expression'],
    'technique': 'runtime reference-model monitor on IndexOperator.mv / PackOperator.mv (NumPy indexing), scatter-add and product oracles',
    'level_text': 'exploration: thousands of index forms x structures; every observed mv equals NumPy indexing, transposes equal np.add.at, reductions equal the reference products.',
    'level_note': 'index arrays in bounds; sizes small (<= 4 per axis)',
}

PROPS['C09'] = {
    'modes': [(0, 7, 'apply'), (0, 1, 'reject'), (1, 7, 'apply'), (1, 1, 'reject')],
    'budget': {'quick': 40, 'thorough': 400},
    'deciding': {'C09.mv': (25, 250), 'C09.apply': (50, 500), 'C09.construct': (50, 500),
                 'C09.as_matrix': (20, 200), 'C09.reject': (12, 50), 'C09.jit': (10, 100)},
    'require_hist': {'quick': {'C09.method': ['dense', 'direct', 'fft', 'overlap_save']},
                     'thorough': {'C09.method': ['dense', 'direct', 'fft', 'overlap_save']}},
    'rule': 'cases = (n in 1..60 quick / 1..200 thorough, K in 1..12 / 1..40 incl. K >= n, band batch shapes broadcastable to the '
            'input batch shape of rank <= 2, float32 / float64 (x64) / float16 (thorough), explicit FFT sizes 2K-1, 2K, 2K+1, powers '
            'of two, random >= 2K-1) x the four methods, eager and under jit; every eager mv observed is compared with the float64 '
            'banded product T[i,j] = band[|i-j|] per batch row; output shape/dtype = input; as_matrix = block diagonal of the per-row '
            'matrices; illegal methods and FFT sizes must raise ValueError. case key = (method, K<=n or K>n, FFT form, batch ranks, '
            'dtype); non-trivial = K >= 2',
    'assumptions': COMMON_ASSUMPTIONS + ['n <= 200, K <= 40'],
    'technique': 'runtime reference-model monitor on SymmetricBandToeplitzOperator.mv (banded product), constructor acceptance/rejection oracle',
    'level_text': 'exploration: thousands of (n, K, fft size, batch shape, dtype, method) points, each compared with the explicit banded product.',
    'level_note': 'n <= 200; FFT methods judged at 3e-4 (float32) / 1e-9 (float64) norm-wise',
}

PROPS['C10'] = {
    'modes': [(0, 6, 'blocks'), (0, 2, 'extra'), (1, 6, 'blocks'), (1, 2, 'extra')],
    'budget': {'quick': 60, 'thorough': 400},
    'deciding': {'C10.mv': (100, 1000), 'C10.as_matrix': (100, 1000), 'C10.transpose': (100, 1000),
                 'C10.inverse': (15, 150), 'C10.reduce': (100, 1000), 'C10.reject': (12, 125), 'C10.products': (15, 150)},
    'require_hist': {'quick': {'C10.class': ['row', 'diag', 'col'], 'C10.products': ['blocks/row@diag', 'blocks/diag@col', 'blocks/diag@diag', 'blocks/row@col']},
                     'thorough': {'C10.class': ['row', 'diag', 'col'], 'C10.products': ['blocks/row@diag', 'blocks/diag@col', 'blocks/diag@diag', 'blocks/row@col']}},
    'rule': 'cases = block row/diagonal/column operators over list, tuple, dict (unsorted keys), nested, one-side-nested, single-operator '
            'and arity-1 containers, with blocks that are atoms, compositions, sums, block operators and operators with pytree '
            'inputs/outputs; mv (all basis vectors) and as_matrix compared with numpy hstack / block_diag / vstack of the reference '
            'matrices of the blocks in pytree-leaf order; transposes must be the column/diagonal/row operator of the transposed blocks; '
            'block-diagonal inverses block-wise; mismatching shared structures refused; adjacent block operators reduce to the '
            'block-wise product (a sum for row x column). case key = (class, container kind, arity, block kinds); non-trivial = '
            'arity >= 2 or a pytree-valued block',
    'assumptions': COMMON_ASSUMPTIONS,
    'technique': 'runtime observation of block operators (mv on all basis vectors, as_matrix, T, I, reduce) against stacked reference matrices',
    'level_text': 'exploration: thousands of generated block operators over every container kind compared with the explicit block matrices.',
    'level_note': 'sizes <= 40; sampled containers and block kinds',
}

PROPS['C11'] = {
    'modes': [(0, 8, 'diag'), (1, 8, 'diag')],
    'budget': {'quick': 50, 'thorough': 360},
    'deciding': {'C11.mv': (125, 1250), 'C11.construct': (250, 2500), 'C11.as_matrix': (25, 250), 'C11.reject': (5, 25)},
    'require_hist': {'quick': {'C11.construct': ['BroadcastDiagonalOperator:accepted', 'BroadcastDiagonalOperator:refused',
                                                 'DiagonalOperator:accepted', 'DiagonalOperator:refused']},
                     'thorough': {}},
    'rule': 'cases = 1-3 leaves of rank 1-4 (sharing leading or trailing dimensions, or unrelated), value arrays of rank 1-3 with '
            'matching, unit or wrong dimensions, axis_destination as non-negative / negative scalar, explicit tuples and lists in any '
            'order, mixed signs, axes beyond the leaf rank on the left and right, duplicated axes; an independent NumPy reference '
            '(expand_dims + transpose + broadcasting) decides whether the specification is legal and what it computes: construction '
            'must succeed exactly when the reference applies (and, for the strict variant, leaves every shape unchanged), every mv '
            'observed equals the reference, as_matrix = diag(broadcast values), the inverse uses reciprocal-or-zero values. case key '
            '= (axis form, value rank, leaf ranks, alignment, reference outcome); non-trivial = all',
    'assumptions': COMMON_ASSUMPTIONS,
    'technique': 'runtime reference-model monitor on (Broadcast)DiagonalOperator.mv; constructor acceptance oracle from an independent NumPy model',
    'level_text': 'exploration: thousands of (leaf shapes, value shapes, axis specification) configurations, legality and values decided by an independent NumPy model.',
    'level_note': 'dimensions 1..3, ranks <= 4',
}

PROPS['C13'] = {
    'modes': [(0, 8, 'axes'), (1, 8, 'axes')],
    'budget': {'quick': 20, 'thorough': 130},
    'deciding': {'C13.mv': (375, 3750), 'C13.construct': (375, 3750), 'C13.roundtrip': (200, 2000), 'C13.permutation': (125, 1250), 'C13.pair': (30, 300)},
    'require_hist': {'quick': {'C13.mv.class': ['MoveAxisOperator', 'RavelOperator', 'ReshapeOperator', 'ReshapeTransposeOperator'],
                               'C13.construct': ['ravel:accepted', 'ravel:refused', 'reshape:accepted', 'reshape:refused']},
                     'thorough': {'C13.mv.class': ['MoveAxisOperator', 'RavelOperator', 'ReshapeOperator', 'ReshapeTransposeOperator']}},
    'rule': 'cases = move-axis (int / tuple / list arguments, positive, negative and mixed axes, 1-4 axes, 1-3 leaves of rank 1-4, every '
            'argument numpy.moveaxis accepts for every leaf), ravel (first/last in every sign combination, legal and illegal), reshape '
            '(explicit shapes, -1 at any position, wrong sizes, two -1, sizes below -1); every mv observed equals numpy.moveaxis / the '
            'flattening of the axes between first and last / numpy.reshape (exact, integer-valued data); A.T(A(x)) = x; the dense form is '
            'a permutation matrix equal to as_matrix; reduce() gives the identity only when no leaf shape changes and the map is the '
            'identity; construction succeeds exactly when the NumPy reference applies to every leaf. case key = (class, argument form, '
            'signs, legality, leaf ranks); non-trivial = some leaf shape changes',
    'assumptions': COMMON_ASSUMPTIONS + ['move-axis arguments that NumPy itself rejects (repeated or out-of-range axes) are not legal arguments and are not generated'],
    'technique': 'runtime reference-model monitor on MoveAxis/Ravel/Reshape/ReshapeTranspose mv (NumPy), constructor legality oracle, permutation-matrix oracle',
    'level_text': 'exploration: thousands of axis specifications x leaf shapes, exact comparison with NumPy.',
    'level_note': 'ranks <= 4, dimensions 1..4',
}

PROPS['C14'] = {
    'modes': [(0, 2, 'ij'), (0, 14, 'ijk')],
    'modes_thorough': [(0, 1, 'ij'), (0, 13, 'ijk'), (0, 2, 'h')],
    'budget': {'quick': 90, 'thorough': 900},
    'deciding': {'C14.mv': (1500, 15000), 'C14.transpose': (1500, 15000), 'C14.construct': (1500, 15000)},
    'require_hist': {'quick': {'C14.transpose': ['accepted', 'rejected']}, 'thorough': {'C14.transpose': ['accepted', 'rejected']}},
    'exhaustive': {'quick': False, 'thorough': True},
    'no_time_cap': ['ij', 'ijk'],
    'rule': 'cases = ALL explicit two-operand einsum strings over {i,j,k}: left operand 2-3 distinct letters, right operand and result 1-2 '
            'letters, every letter order, an ellipsis absent or at every position of each term (58 806 strings; quick = the {i,j} '
            'sub-alphabet exhaustively + a seeded 10 % sample of the rest; thorough = all, plus every 7th string of the 4-letter forms with '
            'h in the block term), shared and per-leaf block arrays, integer-valued data; strings numpy.einsum rejects are not operators '
            'and are skipped; for the others mv must equal numpy.einsum and .T must either raise ValueError or be the exact adjoint, and '
            'must be accepted whenever the independent predicate (one contracted letter, one free block letter, result with the free '
            'letter replaced = right operand) holds. case key = subscript string; non-trivial = transpose accepted',
    'assumptions': COMMON_ASSUMPTIONS + ['letter sizes i=2, j=3, k=4, h=2, ellipsis dimensions (2,)'],
    'technique': 'runtime reference-model monitor (numpy.einsum) and adjoint oracle over an exhaustively enumerated subscript space',
    'level_text': 'exploration, exhaustive within bounds in the thorough tier: every subscript string of the enumerated space is executed; accepted transposes are exact adjoints on all basis vectors.',
    'level_note': 'alphabet {i,j,k} (+h sampled); one block/leaf shape per string',
}

PROPS['C15'] = {
    'modes': [(0, 8, 'pol'), (1, 8, 'pol')],
    'budget': {'quick': 50, 'thorough': 360},
    'deciding': {'C15.mv': (375, 3750), 'C15.identity': (150, 1500), 'C15.factory': (75, 750), 'C15.chain': (75, 750)},
    'require_hist': {'quick': {'C15.mv.class': ['HWPOperator', 'QURotationOperator', 'QURotationTransposeOperator', 'LinearPolarizerOperator'],
                               'C15.factory': ['qurot', 'hwp', 'hwp-none', 'pol', 'pol-none']},
                     'thorough': {'C15.mv.class': ['HWPOperator', 'QURotationOperator', 'QURotationTransposeOperator', 'LinearPolarizerOperator']}},
    'rule': 'cases = 4 Stokes kinds x shapes (3,), (1,), (2,3), (2,2) x angle arrays of shape (), full, last axis, all-ones, column, row '
            '(broadcastable to the Stokes shape) with generic angles in (-pi, pi), special values (0, +-pi/4, +-pi/2, +-pi) and large '
            'magnitudes (|a| <= 50), float32 and float64; every mv observed is compared with explicit NumPy Mueller models (HWP = '
            'diag(1,1,-1,-1), R(a) rotating (Q,U) by 2a, R.T by -2a, polariser (I+Q)/2) restricted to the kind; the identities '
            'R(a)R(b)=R(a+b), R(a)HWP=HWP R(-a), pol HWP=pol and the products R.T R, pol R HWP, HWP R HWP are compared with the Mueller '
            'products before and after reduce(); factory methods with and without angles likewise; random chains with scalars and '
            'diagonal operators likewise. case key = (Stokes kind, rank, angle forms); non-trivial = angle not a multiple of pi/4',
    'assumptions': COMMON_ASSUMPTIONS + ['trigonometric tolerance 3e-4 (float32) / 1e-9 (float64), x40 for |a| up to 50'],
    'technique': 'runtime reference-model monitor on the polarimetry mv methods (explicit Mueller matrices) and dense product oracles around reduce()',
    'level_text': 'exploration: thousands of (Stokes kind, shape, angle array) configurations and chains against explicit Mueller matrices.',
    'level_note': 'angles sampled; sizes small',
}

PROPS['C07'] = {
    'modes': [(0, 8), (1, 8)],
    'budget': {'quick': 50, 'thorough': 300},
    'deciding': {'C07.normal-form': (200, 2000)},
    'require_hist': {'quick': {}, 'thorough': {}},
    'rule': 'cases = 1-3 documented patterns (lazy/diagonal/orthogonal inverses, consecutive rotations and transposes, rotation-HWP, '
            'polariser-HWP, polariser-rotation-HWP, the four block pairs, P@P.T for duplicate-free indexing and packing, P.T@P for one '
            'indexed axis, reshape/ravel and move-axis with their transposes) embedded at every position of inert contexts of length 0-6 '
            '(quick) / 0-14 (thorough), with 0-4 scalar factors sprinkled, on wide and tall chains, built through @ in random association '
            'order or through the constructor; after reduce() the flat chain must contain no identity, at most one scalar factor with the '
            'product of the injected values on the side with fewer elements, and no adjacent pair matching one of nine forbidden-residue '
            'predicates written from the documentation (not from the rule registry). case key = (pattern set, left/right context length, '
            'wide/tall, number of scalars); non-trivial = context length >= 1 or >= 2 patterns',
    'assumptions': ['inert context operators (dense, diagonal, Toeplitz, broadcast-diagonal) are not spoken about by any documented pattern',
                    'result correctness is the business of C01; nested (non-flattened) compositions are outside this check',
                    'an operator X and its lazy inverse are only required to collapse when X.I.operator is X (X already reduced and returned unchanged by reduce())'],
    'technique': 'runtime observation of reduce() results judged by independent forbidden-residue predicates over the result chain',
    'level_text': 'exploration: thousands of pattern/context/scalar placements; the reduced chain is inspected structurally (no dense algebra).',
    'level_note': 'says nothing about map preservation (C01) nor about patterns nested inside block operators',
}

TAGGED = ['IdentityOperator:orthogonal=True', 'IdentityOperator:diagonal=True', 'HomothetyOperator:diagonal=True',
          'DiagonalOperator:diagonal=True', 'DiagonalInverseOperator:diagonal=True', 'HWPOperator:diagonal=True',
          'QURotationOperator:orthogonal=True', 'QURotationTransposeOperator:orthogonal=True',
          'SymmetricBandToeplitzOperator:symmetric=True', 'ToastObservationMatrixOperator:square=True']
PROPS['C08'] = {
    'modes': [(0, 8), (1, 8)],
    'budget': {'quick': 40, 'thorough': 300},
    'deciding': {'C08.tags': (500, 5000), 'C08.untagged': (125, 1250)},
    'require_hist': {'quick': {'C08.answers': TAGGED}, 'thorough': {'C08.answers': TAGGED}},
    'rule': 'cases = every operator instance met in seeded atoms/composites (the operator and every operator nested in it) plus dedicated '
            'instances of each tagged class (batched Toeplitz bands, negative scalars, angle arrays of every broadcastable shape, Toast '
            'matrices); the seven lineax tag functions and the two furax declarations (square: out_structure is in_structure; orthogonal: '
            'inverse is transpose, detected below the monitor wrappers) are queried; every tag answered True is checked on the reference '
            'dense matrix of that instance (M=M^T and A.T is A; off-diagonal zero; triangles zero; band; eigenvalues of the symmetric part; '
            'M^T M = I and M(A.I) = M^T; equal structures). case key = (class, tag, parameter form, structure kind); non-trivial = tag True',
    'assumptions': COMMON_ASSUMPTIONS + ['a tag can only be refuted on the parameter values generated; "never tagged if it can fail" is sampled'],
    'technique': 'runtime tag queries on live operator instances, each True answer checked against the reference dense matrix',
    'level_text': 'exploration: thousands of instances of all classes; every True tag is verified on the instance\'s dense matrix.',
    'level_note': 'sampled parameters',
}

PROPS['C17'] = {
    'modes': [(0, 4, 'pixel'), (0, 4, 'healpix'), (1, 4, 'pixel'), (1, 4, 'healpix')],
    'budget': {'quick': 50, 'thorough': 300},
    'deciding': {'C17.pixel2index': (12500, 125000), 'C17.bijection': (100, 100), 'C17.wide': (4, 10), 'C17.healpix': (25000, 250000),
                 'C17.coverage': (10, 100), 'C17.passthrough': (20000, 100000)},
    'require_hist': {'quick': {'C17.healpix.nside': [str(2 ** k) for k in range(14)], 'C17.passthrough.nside': [str(2 ** k) for k in range(14)]},
                     'thorough': {'C17.healpix.nside': [str(2 ** k) for k in range(14)], 'C17.passthrough.nside': [str(2 ** k) for k in range(14)]}},
    'rule': 'cases = (pixel) 1-3-dimensional maps with dimensions 1..6, 400 real coordinates each: strictly inside, mixed inside/outside, '
            'within 1e-3/1e-9 of pixel borders, far outside (+-1e6), float32 and float64 coordinates, judged against a NumPy row-major '
            'reference (first coordinate fastest, -1 outside; coordinates within 1e-6 (float64) / 2e-3 (float32) of a half-integer accept '
            'either neighbour); ALL integer grids of the 155 maps up to 6x5x4 are checked to be in bijection with 0..N-1 in row-major '
            'order with -1 one step outside; maps with more than 2^31 pixels must give int64 and exact indices (64-bit mode); (healpix) '
            'nside = 2^k for k = 0..13 (64-bit mode; k <= 6 otherwise), 4000 (quick) / 20000 directions per case: uniform, polar caps incl. '
            'the poles, equatorial belt, longitudes in (-4 pi, 6 pi), pixel centres; compared with healpy.ang2pix (ring), a direction '
            'whose healpy pixel changes under a 1e-9 (3e-6 float32) perturbation is counted boundary-ambiguous; coverage = numpy.bincount, '
            'sum = number of samples. case key = (map rank or nside, coordinate class); non-trivial = all',
    'assumptions': ['healpy.ang2pix (ring ordering) is the reference for HEALPix', 'non-power-of-two nside is exercised and counted but not judged (not a HEALPix resolution; the jax_healpy dependency disagrees with healpy there)',
                    'with 64-bit mode off only nside <= 64 is compared (the library itself warns about divergence) and int64 indices do not exist'],
    'technique': 'runtime comparison of pixel2index / world2index / get_coverage results with NumPy and healpy reference models on hostile coordinates',
    'level_text': 'exploration: ~10^5 pixel coordinates and ~10^5-10^6 sky directions per run over every nside 1..8192; exhaustive integer grids for the 155 small maps.',
    'level_note': 'healpy trusted; boundary-ambiguous directions are counted, not judged',
}

PROPS['C16'] = {
    'modes': [(1, 16)],
    'budget': {'quick': 60, 'thorough': 400},
    'deciding': {'C16.projection': (500, 5000), 'C16.acquisition': (250, 2500), 'C16.ptp': (10, 100), 'C16.ptp-as_matrix': (4, 40)},
    'require_hist': {'quick': {}, 'thorough': {}},
    'rule': 'cases = nside in {1,2,4,8,16,64} x 4 Stokes kinds x 1-6 detectors x 1-3 directions per detector (projection) / 1 (SAT '
            'acquisition) x 1-40 samples (uniform, longitudes outside [0, 2 pi), poles, create_random_sampling) x random float64 sky maps; '
            'every output sample is compared with the explicit model: pixel = healpy.vec2pix(Rz(phi) Ry(theta) Rz(psi) d), (Q,U) rotated '
            'by 2 psi, acquisition (I + Q cos 2psi - U sin 2psi)/2, reduced and rebuilt-unreduced chains equal; P.T @ P applied (and '
            'as_matrix() for nside <= 2) before and after reduce() equals diag(bincount of hit pixels) per Stokes component; directions '
            'whose healpy pixel changes under a 1e-9 perturbation are counted boundary-ambiguous. case key = (mode, nside, Stokes kind, '
            'detectors, directions, sampling kind); non-trivial = at least two distinct pixels hit',
    'assumptions': ['64-bit mode on and float64 landscapes (the only configuration in which create_acquisition can be constructed)',
                    'healpy.vec2pix (ring ordering) is the reference pixelisation', 'SAT acquisition driven with one direction per detector (the instrument constant)'],
    'technique': 'runtime comparison of the real projection/acquisition operators with an explicit NumPy/healpy pointing model',
    'level_text': 'exploration: hundreds of instrument configurations, every output sample compared with the explicit pointing model.',
    'level_note': 'x64-off runs are excluded (float32 pixel look-ups diverge from healpy, as the library warns)',
}

CLASSES_ALL = CLASSES_T + ['InverseOperator']
CLASSES_NOMASK = [c for c in CLASSES_ALL if c != 'PackOperator']
PROPS['C18'] = {
    'modes': [(0, 7, 'ops'), (0, 1, 'landscapes'), (1, 7, 'ops'), (1, 1, 'landscapes')],
    'budget': {'quick': 80, 'thorough': 420},
    'deciding': {'C18.roundtrip': (75, 750), 'C18.jit-closure': (75, 750), 'C18.jit-argument': (62, 625), 'C18.landscape': (60, 300)},
    'require_hist': {'quick': {'C18.mode.roundtrip': CLASSES_T, 'C18.mode.jit-closure': CLASSES_T, 'C18.mode.jit-argument': [c for c in CLASSES_T if c != 'PackOperator'],
                               'C18.landscape.kind': ['healpix', 'frequency', 'grid', 'config']},
                     'thorough': {'C18.mode.roundtrip': CLASSES_ALL, 'C18.mode.jit-closure': CLASSES_ALL, 'C18.mode.jit-argument': CLASSES_NOMASK,
                                  'C18.landscape.kind': ['healpix', 'frequency', 'grid', 'config']}},
    'rule': 'cases = seeded atoms of every concrete class and composites, in both 64-bit modes; each is applied eagerly (under the JAX '
            'tracer-leak checker), after a jax.tree flatten/unflatten round trip, inside jax.jit(lambda x: op.mv(x)) and through '
            'equinox.filter_jit with the operator as an argument (skipped for operators holding a boolean mask array); pytree '
            'structure, shapes, dtypes and values must agree with the eager result; HEALPix, frequency and grid landscapes and the '
            'configuration state are round-tripped and compared attribute by attribute, with world2index / pixel2index equal after the '
            'round trip and under jit with the landscape as an argument. case key = (skeleton, structure kind); a class never seen in '
            'a mode makes the run inconclusive',
    'assumptions': COMMON_ASSUMPTIONS + ['values compared norm-wise at 1e-6 (float32) / 1e-12 (float64), wider for trigonometric, FFT and solver operators (XLA may fuse differently under jit)'],
    'technique': 'runtime comparison of execution modes (eager / jit closure / filter_jit argument / unflattened copy) with the JAX tracer-leak checker as a sanitizer',
    'level_text': 'exploration: every class is observed in every execution mode; results must coincide with eager application.',
    'level_note': 'sampled operators; jax_check_tracer_leaks is used as a verdict only for leaks raised inside the jitted application of the operator',
}

PROPS['C19'] = {
    'modes': [(0, 8, 'history'), (0, 4, 'schedules'), (0, 4, 'threads')],
    'budget': {'quick': 60, 'thorough': 400},
    'deciding': {'C19.history': (375, 3750), 'C19.apply': (5, 50), 'C19.schedule': (3000, 3000), 'C19.threads': (125, 1250), 'C19.contexts': (75, 750)},
    'require_hist': {'quick': {'C19.schedules': ['2-threads', '3-threads']}, 'thorough': {'C19.schedules': ['2-threads', '3-threads']}},
    'exhaustive': {'quick': False, 'thorough': False},
    'rule': 'cases = (history) random well-nested histories of ENTER / EXIT / EXIT-BY-EXCEPTION / READ / CREATE-INVERSE / APPLY-INVERSE events '
            'up to depth 4 (quick) / 6, every ENTER with unique recognisable settings, compared after every event with a stack-of-dictionaries '
            'model and with the default state at the end; applying an inverse (also after its blocks are closed) must fire the callback and use '
            'the solver max_steps captured at creation (observed inside the lineax Solution handed to the callback); (schedules) ALL 70 '
            'interleavings of 2 threads x 4 steps and ALL 1680 interleavings of 3 threads x 3 steps driven by a semaphore scheduler, each '
            'thread and the scheduling context compared with their own model after every step; (threads) 2-5 free-running threads with '
            'sys.monitoring LINE-event yield injection inside config.py and a 1 microsecond switch interval; contextvars.copy_context() '
            'children and asyncio tasks interleaved at awaits. case key = event-type sequence / schedule; non-trivial = depth >= 2 or >= 2 threads',
    'assumptions': ['only fresh Config(...) objects entered where they are built, as the property states (re-entering one Config object is outside it)',
                    'CPython has no data-race detector: the claim is "held on the interleavings listed", the two small schedule spaces being enumerated completely'],
    'technique': 'history recording at the client boundary checked online against an executable stack model; exhaustive small-schedule enumeration; sys.monitoring yield injection',
    'level_text': 'exploration with two exhaustively enumerated schedule spaces (70 + 1680): every event of every history/schedule is compared with the model; effect-level observation of the captured solver through the real lineax solve.',
    'level_note': 'schedules beyond 3 threads x 3 steps are sampled by free-running threads only',
}

PROPS['C20'] = {
    'modes': [(0, 8), (1, 8)],
    'budget': {'quick': 50, 'thorough': 300},
    'deciding': {'C20.arith': (200, 2000), 'C20.unary': (100, 1000), 'C20.factory': (100, 1000), 'C20.tree': (100, 1000), 'C20.reject': (75, 750)},
    'require_hist': {'quick': {'C20.factory': ['zeros', 'ones', 'full', 'normal', 'uniform', 'structure_for', 'from_stokes', 'from_stokes-kw', 'from_iquv', 'defaults'],
                               'C20.tree': ['dot', 'dot-complex', 'zeros_like', 'ones_like', 'full_like', 'normal_like', 'uniform_like', 'as_promoted_dtype', 'as_promoted_dtype-struct']},
                     'thorough': {}},
    'rule': 'cases = 4 Stokes kinds x shapes (3,), (1,), (2,3), (2,1,2) x float16/float32/float64(x64) x {+,-,*,/,**} forward and reflected '
            'with Python int/float, NumPy scalars, JAX scalars, 0-d / 1-d / full JAX arrays and same-kind containers (also of another '
            'dtype): every component must equal the same operation on the bare component (shape, JAX-promoted dtype) and the float64 NumPy '
            'value with the operand order preserved; other kinds and unknown Stokes strings are rejected; neg/abs/pos/indexing (int, '
            'array, slice, mask)/ravel/reshape/@ component-wise; factories zeros/ones/full/normal/uniform/structure_for/from_stokes '
            '(positional, keyword, structures)/from_iquv: kind, shape, dtype (promotion across components), values, bounds, per-component '
            'independence and reproducibility of draws; furax.tree dot (Hermitian, complex leaves), *_like (treedef, shapes, dtypes, '
            'values), as_promoted_dtype on arrays and structures, as_structure, is_leaf on lists/tuples/dicts/nested/Stokes pytrees. '
            'case key = (function, Stokes kind or tree kind, operand type, dtype pair); non-trivial = non-commutative operator or mixed dtypes (arith), all (others)',
    'assumptions': ['the component-wise reference for dtypes is JAX promotion applied to the bare component and the operand'],
    'technique': 'runtime comparison of every Stokes-container operation and tree helper with NumPy/JAX applied component by component',
    'level_text': 'exploration: thousands of (kind, operation, operand type, dtype) combinations compared component by component.',
    'level_note': 'small shapes; float16 judged at 2e-2',
}

# the repository's own tests as an additional thorough-tier workload (DESIGN §2.6)
_T = 'tests/'
PYTEST = {
    'C01': (['reduce'], ['_base/test_rules.py', '_base/test_blocks.py', '_base/test_indices.py', '_base/test_pack.py', '_base/axes/test_move_axis.py',
                         '_base/axes/test_ravel.py', '_base/axes/test_reshape.py', 'operators/test_hwp.py', 'operators/test_polarizers.py',
                         'operators/test_qu_rotations.py', 'test_projections.py', '_base/test_core.py', '_base/test_inverse.py']),
    'C02': (['arith'], ['_base/test_add.py', '_base/test_mul.py', '_base/test_base.py', '_base/test_core.py', '_base/test_inverse.py', '_base/test_rules.py']),
    'C03': (['transpose'], ['_base/test_transpose.py', '_base/test_blocks.py', '_base/test_dense.py', '_base/test_indices.py', '_base/test_pack.py',
                            '_base/axes/test_move_axis.py', '_base/axes/test_ravel.py', '_base/axes/test_reshape.py', 'operators/test_qu_rotations.py',
                            'operators/test_toeplitz.py', 'toast/test_obs_matrix.py', '_base/test_diagonal.py', 'test_projections.py']),
    'C04': (['asmatrix'], ['_base/test_blocks.py', '_base/test_diagonal.py', '_base/test_add.py', '_base/test_dense.py', 'operators/test_toeplitz.py',
                           '_base/axes/test_ravel.py', '_base/axes/test_reshape.py', '_base/test_base.py', '_base/test_inverse.py', 'operators/test_hwp.py']),
    'C05': (['structure'], ['_base/test_blocks.py', '_base/test_diagonal.py', '_base/test_dense.py', '_base/test_indices.py', '_base/test_pack.py',
                            '_base/axes/test_ravel.py', '_base/axes/test_reshape.py', '_base/axes/test_move_axis.py', 'operators/test_toeplitz.py',
                            'operators/test_hwp.py', 'operators/test_polarizers.py', 'operators/test_qu_rotations.py', 'test_projections.py', '_base/test_rules.py']),
    'C06': (['inverse'], ['_base/test_inverse.py', '_base/test_diagonal.py', '_base/test_blocks.py', 'operators/test_qu_rotations.py', 'test_solver.py',
                          '_base/axes/test_move_axis.py', 'operators/test_decorators.py']),
    'C09': (['mvref'], ['operators/test_toeplitz.py']),
    'C11': (['mvref'], ['_base/test_diagonal.py']),
    'C12': (['mvref'], ['_base/test_indices.py', '_base/test_pack.py', 'test_projections.py']),
    'C13': (['mvref'], ['_base/axes/test_move_axis.py', '_base/axes/test_ravel.py', '_base/axes/test_reshape.py']),
    'C14': (['mvref'], ['_base/test_dense.py']),
    'C15': (['mvref'], ['operators/test_hwp.py', 'operators/test_polarizers.py', 'operators/test_qu_rotations.py']),
}
for _p, (_g, _f) in PYTEST.items():
    PROPS[_p]['pytest'] = {'groups': _g, 'files': [_T + f for f in _f]}
    base = PROPS[_p].get('modes_thorough') or PROPS[_p]['modes']
    PROPS[_p]['modes_thorough'] = list(base) + [(0, min(4, len(_f)), 'pytest')]

# Functions of the library named by the properties' anchors: a run in which the workload never executed one of them
# is inconclusive (function-entry tracer of fvm.worker; patterns are fnmatch patterns over "<file under furax/>:<qualname>").
ANCHORS: dict[str, list[str]] = {
    'C01': ['_base/rules.py:AlgebraicReductionRule.apply', '_base/core.py:CompositionOperator.reduce', '_base/rules.py:AbstractBinaryRule.check',
            '_base/rules.py:InverseBinaryRule.*', '_base/rules.py:HomothetyRule.apply', '_base/rules.py:IdentityRule.apply',
            '_base/blocks.py:AbstractBlockDiagonalRule.apply',
            '_base/indices.py:IndexTransposeRule.apply', '_base/indices.py:TransposeIndexRule.apply',
            '_base/axes.py:MoveAxisInverseRule.apply', '_base/axes.py:ReshapeInverseRule.apply', '_base/linear.py:PackUnpackRule.apply',
            'operators/qu_rotations.py:QURotationRule.apply', 'operators/hwp.py:QURotationHWPRule.apply',
            'operators/polarizers.py:LinearPolarizerHWPRule.apply', '_base/core.py:AdditionOperator.reduce',
            '_base/core.py:InverseOperator.__init__', '_base/blocks.py:AbstractBlockOperator.reduce', '_base/blocks.py:BlockDiagonalOperator.reduce',
            '_base/axes.py:AbstractRavelOrReshapeOperator.reduce', '_base/indices.py:IndexOperator.reduce'],
    'C02': ['_base/core.py:AbstractLinearOperator.__matmul__', '_base/core.py:AbstractLinearOperator.__add__', '_base/core.py:AbstractLinearOperator.__sub__',
            '_base/core.py:CompositionOperator.__matmul__', '_base/core.py:CompositionOperator.__rmatmul__', '_base/core.py:AdditionOperator.__add__',
            '_base/core.py:AdditionOperator.__radd__', '_base/core.py:AdditionOperator.__neg__', '_base/core.py:AbstractLinearOperator.__rmul__',
            '_base/core.py:AbstractLinearOperator.__mul__', '_base/core.py:AbstractLinearOperator.__truediv__', '_base/core.py:AbstractLinearOperator.__neg__',
            '_base/core.py:HomothetyOperator.__matmul__', '_base/core.py:IdentityOperator.__matmul__', '_base/core.py:AbstractLazyInverseOperator.__matmul__',
            '_base/blocks.py:BlockRowOperator.__init__', '_base/blocks.py:BlockColumnOperator.__init__'],
    'C03': ['_base/core.py:TransposeOperator.mv', '_base/core.py:CompositionOperator.transpose', '_base/core.py:AdditionOperator.transpose',
            '_base/blocks.py:Block*Operator.transpose', '_base/dense.py:DenseBlockDiagonalOperator.transpose',
            '_base/dense.py:DenseBlockDiagonalOperator._get_transposed_subscripts', '_base/axes.py:MoveAxisOperator.transpose',
            '_base/axes.py:ReshapeTransposeOperator.mv', 'operators/qu_rotations.py:QURotationTransposeOperator.mv',
            'toast/obs_matrix.py:ToastObservationMatrixTransposeOperator.mv', '_base/core.py:symmetric', '_base/core.py:diagonal'],
    'C04': ['_base/core.py:AbstractLinearOperator.as_matrix', '_base/core.py:AdditionOperator.as_matrix', '_base/core.py:IdentityOperator.as_matrix',
            '_base/core.py:HomothetyOperator.as_matrix', '_base/core.py:AbstractLazyInverseOperator.as_matrix', '_base/diagonal.py:DiagonalOperator.as_matrix',
            '_base/blocks.py:BlockRowOperator.as_matrix', '_base/blocks.py:BlockDiagonalOperator.as_matrix', '_base/blocks.py:BlockColumnOperator.as_matrix',
            '_base/axes.py:AbstractRavelOrReshapeOperator.as_matrix', 'operators/toeplitz.py:SymmetricBandToeplitzOperator.as_matrix'],
    'C05': ['_base/core.py:AbstractLinearOperator.out_structure', '_base/core.py:square', '_base/core.py:AdditionOperator.in_structure',
            '_base/core.py:CompositionOperator.in_structure', '_base/core.py:CompositionOperator.out_structure', '_base/core.py:_AbstractLazyDualOperator.in_structure',
            '_base/core.py:_AbstractLazyDualOperator.out_structure', '_base/blocks.py:AbstractBlockOperator.in_structure', '_base/blocks.py:AbstractBlockOperator.out_structure',
            '_base/blocks.py:BlockRowOperator.out_structure', '_base/blocks.py:BlockColumnOperator.in_structure',
            '_base/core.py:AbstractLinearOperator.in_size', '_base/core.py:AbstractLinearOperator.out_size',
            '_base/core.py:AbstractLinearOperator.in_promoted_dtype', '_base/core.py:AbstractLinearOperator.out_promoted_dtype'],
    'C06': ['_base/core.py:InverseOperator.__init__', '_base/core.py:InverseOperator.mv', '_base/core.py:AbstractLazyInverseOperator.inverse',
            '_base/core.py:AbstractLazyInverseOperator.as_matrix', '_base/core.py:HomothetyOperator.inverse', '_base/core.py:orthogonal',
            '_base/diagonal.py:DiagonalInverseOperator.diagonal', '_base/blocks.py:BlockDiagonalOperator.inverse', '_base/axes.py:MoveAxisOperator.transpose'],
    'C07': ['_base/rules.py:AlgebraicReductionRule.apply', '_base/rules.py:IdentityRule.apply', '_base/rules.py:HomothetyRule.apply',
            '_base/rules.py:AbstractBinaryRule.check', '_base/rules.py:InverseBinaryRule.*'],
    'C08': ['_base/core.py:AbstractLinearOperator.__init_subclass__', '_base/core.py:_monkey_patch_operator', '_base/core.py:diagonal', '_base/core.py:symmetric',
            '_base/core.py:orthogonal', '_base/core.py:square', '_base/core.py:lower_triangular', '_base/core.py:upper_triangular',
            '_base/core.py:positive_semidefinite', '_base/core.py:negative_semidefinite'],
    'C09': ['operators/toeplitz.py:SymmetricBandToeplitzOperator.mv', 'operators/toeplitz.py:SymmetricBandToeplitzOperator._get_func',
            'operators/toeplitz.py:SymmetricBandToeplitzOperator._apply_dense', 'operators/toeplitz.py:SymmetricBandToeplitzOperator._apply_direct',
            'operators/toeplitz.py:SymmetricBandToeplitzOperator._apply_fft', 'operators/toeplitz.py:SymmetricBandToeplitzOperator._apply_overlap_save',
            'operators/toeplitz.py:SymmetricBandToeplitzOperator._get_kernel', 'operators/toeplitz.py:dense_symmetric_band_toeplitz',
            'operators/toeplitz.py:SymmetricBandToeplitzOperator.__init__', 'operators/toeplitz.py:SymmetricBandToeplitzOperator._get_default_fft_size'],
    'C10': ['_base/blocks.py:BlockRowOperator.mv', '_base/blocks.py:BlockDiagonalOperator.mv', '_base/blocks.py:BlockColumnOperator.mv',
            '_base/blocks.py:AbstractBlockOperator.in_structure', '_base/blocks.py:AbstractBlockOperator.out_structure', '_base/blocks.py:Block*Operator.transpose',
            '_base/blocks.py:BlockDiagonalOperator.inverse', '_base/blocks.py:Block*Operator.as_matrix', '_base/blocks.py:BlockRowOperator.__init__',
            '_base/blocks.py:BlockColumnOperator.__init__', '_base/blocks.py:AbstractBlockDiagonalRule.apply'],
    'C11': ['_base/diagonal.py:BroadcastDiagonalOperator.__init__', '_base/diagonal.py:BroadcastDiagonalOperator._normalize_axes',
            '_base/diagonal.py:BroadcastDiagonalOperator._reshape_diagonal', '_base/diagonal.py:BroadcastDiagonalOperator._reshape_input_leaf',
            '_base/diagonal.py:DiagonalOperator._check_leaf_shapes', '_base/diagonal.py:DiagonalOperator.as_matrix', '_base/diagonal.py:DiagonalInverseOperator.diagonal'],
    'C12': ['_base/indices.py:IndexOperator.__init__', '_base/indices.py:IndexOperator.mv', '_base/indices.py:IndexOperator.indexed_axes',
            '_base/indices.py:IndexTransposeRule.apply', '_base/indices.py:TransposeIndexRule.apply', '_base/linear.py:PackUnpackRule.apply',
            '_base/linear.py:PackOperator.mv', 'landscapes.py:StokesPyTree.__getitem__'],
    'C13': ['_base/axes.py:MoveAxisOperator.mv', '_base/axes.py:RavelOperator.mv', '_base/axes.py:ReshapeOperator.mv', '_base/axes.py:ReshapeTransposeOperator.mv',
            '_base/axes.py:RavelOperator.__init__', '_base/axes.py:ReshapeOperator._check_shape', '_base/axes.py:ReshapeOperator._normalize_shape',
            '_base/axes.py:MoveAxisOperator.transpose', '_base/axes.py:AbstractRavelOrReshapeOperator.transpose', '_base/axes.py:AbstractRavelOrReshapeOperator.reduce',
            '_base/axes.py:MoveAxisInverseRule.apply', '_base/axes.py:ReshapeInverseRule.apply'],
    'C14': ['_base/dense.py:DenseBlockDiagonalOperator.mv', '_base/dense.py:DenseBlockDiagonalOperator._parse_subscripts',
            '_base/dense.py:DenseBlockDiagonalOperator._get_transposed_subscripts', '_base/dense.py:DenseBlockDiagonalOperator.transpose'],
    'C15': ['operators/hwp.py:HWPOperator.mv', 'operators/qu_rotations.py:QURotationOperator.mv', 'operators/qu_rotations.py:QURotationTransposeOperator.mv',
            'operators/polarizers.py:LinearPolarizerOperator.mv', 'operators/qu_rotations.py:QURotationRule.apply', 'operators/hwp.py:QURotationHWPRule.apply',
            'operators/polarizers.py:LinearPolarizerHWPRule.apply', 'operators/hwp.py:HWPOperator.create', 'operators/polarizers.py:LinearPolarizerOperator.create',
            'operators/qu_rotations.py:QURotationOperator.create'],
    'C16': ['projections.py:get_rotation_matrix', 'projections.py:vec2dir', 'projections.py:create_projection_operator', 'landscapes.py:HealpixLandscape.world2pixel',
            'landscapes.py:StokesLandscape.world2index', '_base/indices.py:IndexOperator.mv', 'instruments/sat.py:create_acquisition', 'detectors.py:DetectorArray.__init__',
            'samplings.py:create_random_sampling'],
    'C17': ['landscapes.py:StokesLandscape.pixel2index', 'landscapes.py:HealpixLandscape.world2pixel', 'landscapes.py:StokesLandscape.world2index',
            'landscapes.py:StokesLandscape.get_coverage', 'landscapes.py:HealpixLandscape.__init__', 'landscapes.py:StokesLandscape.__init__'],
    'C18': ['landscapes.py:*Landscape.tree_flatten', 'landscapes.py:*Landscape.tree_unflatten', 'landscapes.py:HealpixLandscape.tree_flatten',
            'landscapes.py:FrequencyLandscape.tree_flatten',
            'operators/toeplitz.py:SymmetricBandToeplitzOperator._apply_overlap_save'],
    'C19': ['_base/config.py:Config.__init__', '_base/config.py:Config.__enter__', '_base/config.py:Config.__exit__', '_base/config.py:Config.instance',
            '_base/core.py:InverseOperator.__init__', '_base/core.py:InverseOperator.mv'],
    'C20': ['landscapes.py:StokesPyTree._operation', 'landscapes.py:StokesPyTree._roperation', 'landscapes.py:StokesPyTree.class_for',
            'landscapes.py:StokesPyTree.structure_for', 'landscapes.py:StokesPyTree.from_stokes', 'landscapes.py:Stokes*PyTree.from_iquv',
            'landscapes.py:StokesPyTree.zeros', 'landscapes.py:StokesPyTree.ones', 'landscapes.py:StokesPyTree.full', 'landscapes.py:StokesPyTree.normal',
            'landscapes.py:StokesPyTree.uniform', 'tree.py:dot', 'tree.py:as_promoted_dtype', 'tree.py:as_structure', 'tree.py:full_like', 'tree.py:zeros_like',
            'tree.py:ones_like', 'tree.py:normal_like', 'tree.py:uniform_like', 'tree.py:is_leaf'],
}
for _p, _a in ANCHORS.items():
    PROPS[_p]['anchors'] = _a

# Workload parts added after the mutation rounds (appended to the generation rule reported in the evidence).
RULE_ADDENDA = {
    'C01': ' A quarter of the pattern cases are bare (no context, no scalar: chains whose operands all cancel); near-miss forms include '
           'duplicate-index P @ P.T and index pairs differing by an integer or a slice; block pairs that cannot be paired followed by pairs that can.',
    'C02': ' The final expression of every tree case is applied to a vector under the reference model of the scalar operator (C02.mv: each '
           'leaf judged in its own precision and dtype; scalars include values that are not dyadic; pytrees of mixed dtypes).',
    'C03': ' Every twelfth case is an "observation loop": operators of one class built from fresh parameter arrays, transposed, used, dropped '
           'and garbage-collected in turn (20-60 rotations in a tight loop, or 6-13 monitored operators).',
    'C04': ' The class round-robin includes solver-based inverses of bare symmetric-tagged operands (positive and negative definite Toeplitz); '
           'Toeplitz atoms take user-chosen FFT sizes from the minimum 2K-1 upwards.',
    'C06': ' A third of the lazy cases first take a loose preview inverse of the same operand object under other solver settings; a quarter of '
           'the blocks of generated block-diagonals are solver-inverted SPD blocks next to closed-form ones.',
    'C07': ' A quarter of the cases are bare patterns (the whole chain cancels); patterns include cancelling block-diagonal pairs and a '
           'mismatched block pair followed by a matching pair of the same classes.',
    'C08': ' One case in six probes a rectangular Toast observation-matrix file (must be refused or not answer square).',
    'C09': ' A third of the 64-bit cases use float32 band values on float64 data (judged at float32 accuracy for the FFT methods, output dtype '
           'still the input dtype).',
    'C10': ' A quarter of the product cases are chains: a block pair that cannot be paired followed by one that can, or two block-diagonals '
           'whose blocks cancel pairwise (the result must be the identity on the structure of the chain).',
    'C11': ' The reference-model monitor also checks the result dtype against the promotion of the stored values with each leaf.',
    'C12': ' Stokes inputs are also indexed directly (x[index] must equal the operator); sorted index arrays that look like ranges ([0,0,2]); '
           'a quarter of the pack part reduces products of two DIFFERENT selections (near misses), which must keep their map.',
    'C13': ' Half of the two-leaf reshape cases use leaves of equal size and different shapes with the shape of one of them as target.',
    'C14': ' One string in five is built with blocks strictly wider than the data (result dtype = promotion; structure swap judged on shapes '
           'only there); a transpose that is neither an einsum operator with rewritten subscripts nor an error is a violation.',
    'C15': ' Factory results are used as left and right factors of products and judged again afterwards.',
    'C16': ' Samplings include scans across the pole with negative co-latitudes and scans carrying an off-axis detector exactly onto a pole; '
           'border-ambiguous samples must read one of the candidate pixels within 1e-9 of the direction.',
    'C17': ' Coverage is also taken on grid landscapes with up to 12 pixels per axis (coordinates beyond 2 pi), all samples in the map.',
    'C18': ' One case in ten applies one bare operator object (atom, transpose, closed-form inverse) first inside a jit closing over constant '
           'data, then eagerly, then in a second jit, against a history-free copy; a third of the other cases start with such a jit.',
    'C19': ' A third of the create events invert one shared operand object through .I (earlier inverses alive).',
    'C20': ' Tree helpers include as_promoted_dtype with one weakly typed leaf, call sequences on one structure (sign of zero compared) and '
           'the same request before/inside/after a temporary switch of the 64-bit mode.',
}
RULE_ADDENDA_4 = {
    'C01': ' Near misses include reversal slices (shape-preserving indexing that is not the identity).',
    'C03': ' Broadcast-diagonal atoms include those stretching a length-1 axis (the transpose sums over it); Toeplitz atoms take user-chosen FFT sizes.',
    'C05': ' One case in twenty uses a Stokes container whose components have different dtypes under component-wise operators.',
    'C06': ' Closed forms include integer-valued scalars; one closed case in ten round-trips a non-square axis permutation on leaves of different ranks.',
    'C08': ' Harness classes include complex Hermitian operators under the public semidefinite decorators.',
    'C09': ' Half-precision data (float16, bfloat16) in a fifth of the cases; 8 (quick) / 48 cases with bands of 16 385 to 40 000 values.',
    'C10': ' Chains include row-times-column products whose block products are scalars.',
    'C11': ' A third of the multi-leaf cases give the leaves different dtypes (values in the narrowest).',
    'C12': ' A quarter of the pack part reduces H.T @ H / H @ H.T chains in which the selection pair only becomes adjacent after its neighbours cancelled.',
    'C13': ' One case in five is a chain of two or three axis operators on leaves of rank 3-5; one in 25 uses weakly typed input structures.',
    'C14': ' A third of the per-leaf strings use leaves of different dtypes with blocks in the narrowest.',
    'C15': ' One case in ten applies the operators to complex Stokes data; as_matrix() of one operator in a quarter of the cases.',
    'C17': ' One pixel case in eight uses integer-typed coordinates (int8/int16/uint8/int32, mixed) on maps of up to 200 / 20x20 / 7x7x7 pixels.',
    'C18': ' One case in ten applies a sum of three or more terms to NumPy data (eager and jit; the data must be left unmodified); a quarter of the other cases repeat the eager call on NumPy copies.',
    'C19': ' Options may hold a block-diagonal preconditioner; taking the inverse of a block-diagonal operator is an event; composites of two dense factors are reduced next to their own factors.',
}
RULE_ADDENDA_5 = {
    'C03': ' The bilinear probe also compares the structure A.T(y) returns with the input space of A.',
    'C06': ' A third of the 1-d lazy operands are normal operators P.T @ P + I of selections with repeated and negative indices.',
    'C13': ' Every reshape case also reduces the lazy transpose (alone, after an identity) and applies (op.T @ op).reduce().',
    'C15': ' A third of the cases reduce a chain holding a factory result as one item; a quarter build rotation products inside a jit whose arguments are the angle arrays.',
    'C17': ' One coverage case in three uses a raster sampling (co-latitudes (n,1) against longitudes (1,m)).',
    'C19': ' A quarter of the reduce events do arithmetic on the inverse instead (scaling, negation, difference).',
    'C01': ' Near misses include two different ravels that coincide on the first leaf only.',
    'C02': ' Shortcuts include the inverse of A next to an already built composition B @ A / A @ B.',
    'C04': ' One case in fifteen is an einsum operator with a leading batch letter and square blocks (or its transpose), one in fifteen an operator on a pytree holding a unit leaf before other leaves.',
    'C07': ' Patterns include selections written with an ellipsis and triples of block-diagonal operators (residues are also looked for inside the merged block-wise products).',
    'C10': ' Chains include legal row-times-column products whose two sides nest their containers differently.',
    'C14': ' One string in seven is rewritten with an upper-case label.',
    'C16': ' Refusing legal inputs when building the projection or the acquisition is a violation.',
    'C20': ' Tree helpers include uniform_like with non-zero lower bounds on 64-draw leaves and multi-axis indexing of Stokes containers.',
}
for _p, _t in RULE_ADDENDA.items():
    PROPS[_p]['rule'] = PROPS[_p]['rule'] + _t + RULE_ADDENDA_4.get(_p, '') + RULE_ADDENDA_5.get(_p, '')
for _p, _t in RULE_ADDENDA_4.items():
    if _p not in RULE_ADDENDA:
        PROPS[_p]['rule'] = PROPS[_p]['rule'] + _t + RULE_ADDENDA_5.get(_p, '')
for _p, _t in RULE_ADDENDA_5.items():
    if _p not in RULE_ADDENDA and _p not in RULE_ADDENDA_4:
        PROPS[_p]['rule'] = PROPS[_p]['rule'] + _t

NOT_APPLICABLE: dict[str, str] = {}
