"""Per-property configuration of the checks (workers, budgets, deciding monitors, evidence text)."""

RULES_ALL = [
    'InverseBinaryRule', 'QURotationRule', 'QURotationHWPRule', 'LinearPolarizerHWPRule',
    'BlockRowBlockDiagonalRule', 'BlockDiagonalBlockColumnRule', 'BlockDiagonalBlockDiagonalRule',
    'BlockRowBlockColumnRule', 'IndexTransposeRule', 'TransposeIndexRule', 'PackUnpackRule',
    'ReshapeInverseRule', 'MoveAxisInverseRule',
]

COMMON_ASSUMPTIONS = [
    'operators are applied on CPU through the installed jax/jaxlib; XLA itself is trusted',
    'inputs are finite; parameters are dyadic rationals (exact in float32) unless the operator is inexact by nature',
    'linearity (monitored by C04) turns agreement on the basis vectors into agreement on every input, up to rounding',
    'in_size, out_size <= 24 per generated operator (<= 2^14 matrix entries for the oracle)',
]

PROPS = {
    'C01': {
        'modes': [(0, 4, 'random'), (0, 4, 'pattern'), (1, 4, 'random'), (1, 4, 'pattern')],
        'budget': {'quick': 60, 'thorough': 420},
        'deciding': {'C01.reduce': (2000, 20000), 'C01.rule': (300, 3000), 'C01.nary': (300, 3000)},
        'require_hist': {'quick': {'C01.rule.fired': RULES_ALL}, 'thorough': {'C01.rule.fired': RULES_ALL}},
        'rule': 'cases = seeded random well-typed expression trees (all operator classes, all combinators) and '
                'documented patterns embedded in inert contexts; each case is reduced (also its transpose, its '
                'inverse when closed-form, and the result again) with every nested reduce() and every rule firing '
                'judged separately against the reference dense form; a case key is the expression skeleton (nested '
                'class names + container kinds); non-trivial = at least one rule fired or one reduce() returned a '
                'rewritten operator while reducing it',
        'assumptions': COMMON_ASSUMPTIONS,
        'technique': 'runtime monitors on every reduce() and every rule firing, judged against a reference dense form; seeded expression/pattern workload',
        'level_text': 'exploration: every reduce() call and every rule firing observed while reducing thousands of generated expression trees and embedded patterns is compared (structures + dense matrix on all basis vectors) with the unreduced operand; termination is monitored as bounded progress. Sampled expression space, sizes <= 24.',
        'level_note': 'trusts jax/XLA numerics, the reference densifier (mv on basis vectors, cross-checked eager-loop vs vmap) and linearity of mv (monitored by C04)',
    },
}

NOT_APPLICABLE: dict[str, str] = {}
