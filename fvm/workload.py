"""Shared case-driving loop for all workloads."""

from __future__ import annotations

import time
import traceback
from dataclasses import dataclass
from typing import Any, Callable

import numpy as np

from .core import LOG, NonTermination


@dataclass
class Ctx:
    prop: str
    tier: str
    seed: int
    x64: int
    shard: int
    nshards: int
    deadline: float
    only_index: int | None = None
    part: str | None = None

    @property
    def thorough(self) -> bool:
        return self.tier == 'thorough'

    def rng(self, index: int, stream: int = 0) -> np.random.Generator:
        return np.random.default_rng([self.seed, self.x64, int(self.prop[1:]), stream, index])


def drive(ctx: Ctx, case_fn: Callable[[np.random.Generator, Ctx, int], None], n_quick: int,
          n_thorough: int, stream: int = 0, part: str | None = None) -> None:
    """Runs ``case_fn`` on the case indices of this shard until the count or the time budget is
    exhausted.  A case is a pure function of (seed, x64, property, stream, index)."""
    if ctx.part is not None and part is not None and ctx.part != part:
        return
    n = n_thorough if ctx.thorough else n_quick
    indices = range(ctx.shard, n, ctx.nshards) if ctx.only_index is None else [ctx.only_index]
    for index in indices:
        if ctx.only_index is None and time.time() > ctx.deadline:
            LOG.count('budget', f'time-capped:{part or stream}')
            break
        LOG.case = {'property': ctx.prop, 'tier': ctx.tier, 'seed': ctx.seed, 'x64': ctx.x64,
                    'index': index, 'part': part, 'stream': stream}
        LOG.count('cases', part or f'stream{stream}')
        try:
            case_fn(ctx.rng(index, stream), ctx, index)
        except NonTermination:
            LOG.count('cases.aborted', 'non-termination')
        except GenError as exc:
            LOG.skipped('driver', 'gen-error:' + str(exc)[:100])
            if len(LOG.notes) < 20:
                LOG.notes.append(f'case {LOG.case}: ' + ''.join(
                    traceback.format_exception(exc.__cause__ or exc, limit=-6))[-1500:])
        except Exception as exc:  # noqa: BLE001
            LOG.skipped('driver', f'case-error:{type(exc).__name__}:{str(exc)[:100]}')
            if len(LOG.notes) < 20:
                LOG.notes.append(f'case {LOG.case}: ' + traceback.format_exc(limit=8)[-1800:])
    LOG.case = None


class GenError(Exception):
    """The generator could not build the case (constructor refused legal-looking arguments)."""


def generate(fn: Callable[[], Any]) -> Any:
    try:
        return fn()
    except Exception as exc:  # noqa: BLE001
        raise GenError(f'{type(exc).__name__}:{str(exc)[:160]}') from exc
