"""Writes MANIFEST.json from fvm.props (run: /venv/bin/python -m fvm.manifest)."""
import json, os, sys
ROOT = os.path.dirname(os.path.dirname(os.path.abspath(__file__)))
sys.path.insert(0, ROOT)
from fvm.props import PROPS, NOT_APPLICABLE  # noqa: E402

ALL = [json.loads(l)['id'] for l in open(os.path.join(ROOT, 'properties.jsonl'))]
checks = []
for pid in ALL:
    if pid not in PROPS:
        continue
    c = PROPS[pid]
    checks.append({
        'property_id': pid,
        'quick_cmd': f'./check {pid} --tier quick',
        'thorough_cmd': f'./check {pid} --tier thorough',
        'evidence_file': f'/verif/evidence/{pid}.json',
        'replay_cmd_template': f'./check {pid} --replay {{path}}',
        'engine': 'fvm',
        'level_claimed': {
            'category': c.get('level', 'exploration'),
            'text': c['level_text'],
            'design_ref': f'DESIGN.md §3 {pid}',
        },
        'level_note': c['level_note'],
        'technique': c['technique'],
    })
na = [{'property_id': p, 'reason': NOT_APPLICABLE.get(p, 'check not built yet in this session (runtime monitor planned in DESIGN.md §3)')}
      for p in ALL if p not in PROPS]
m = {
    'version': 1,
    'setup_cmd': '/venv/bin/python -B -c "import jax, equinox, lineax, healpy, jax_healpy, numpy, scipy, sys; sys.path.insert(0, \'/repo/src\'); import furax; print(\'fvm setup ok\', jax.__version__)"',
    'hooks': {
        'guard': 'FURAX_VERIF',
        'enable': 'no hook lives in /repo: the monitors wrap the classes of /repo/src/furax from outside at import time (fvm.monitors.install), only inside the worker processes started by ./check; FURAX_VERIF=1 is exported there for the optional pytest plugin',
        'baseline_off_cmd': 'cd /repo && /venv/bin/python -m pytest -ra -q -p no:cacheprovider --timeout=900 --continue-on-collection-errors',
        'source_commits': [],
        'add_only': True,
    },
    'engines': [{'name': 'fvm', 'path': '/verif/fvm', 'serves_properties': [c['property_id'] for c in checks],
                 'kind_free_text': 'runtime monitors (method wrappers with reference-model oracles) installed on the unmodified furax classes, driven by seeded hostile workloads in 16 worker processes, three-valued verdicts'}],
    'checks': checks,
    'not_applicable': na,
    'notes': 'exit 0 = held on everything observed, 1 = VIOLATION (replay file written), 2 = inconclusive (deciding monitor not reached / worker crashed / oracle skipped too often). Known findings: /verif/known_findings.json.',
}
json.dump(m, open(os.path.join(ROOT, 'MANIFEST.json'), 'w'), indent=1)
print('checks:', [c['property_id'] for c in checks], 'n/a:', [x['property_id'] for x in na])
