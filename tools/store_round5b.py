#!/usr/bin/env python3
"""Stores the fifth-round seeded changes under /verif/seeded/<P>_r5m{k}/ from the sub-agents' scratch worktrees and the
evaluation logs of tools/try_mutant.sh (lines 'RESULT r3<P>_<k> check <C> tier=quick rc=<n> keys=...').

usage: store_round5.py <mut5 dir> <eval log> [<eval log> ...]   (later logs override the outcome used for 'detected_by',
the FIRST log in which the own-property check appears decides 'missed_by_first_version_of_own_check')."""
import json
import os
import re
import shutil
import sys

NEEDS = {
    'C01_m1': 'two different ravels that coincide on the first leaf only (leaves of different ranks) as ravel_a @ ravel_b.T',
    'C01_m2': 'a block operator with exactly one block held in a container, reduce()d',
    'C02_m1': 'the lazy inverse of A next to an already built composition B @ A (A rightmost): not a cancellation',
    'C02_m2': 'the lazy inverse of a diagonal operator multiplied by a scalar with |k| != 1',
    'C04_m1': "einsum operator with a leading batch letter and square non-symmetric blocks, transposed, as_matrix()",
    'C04_m2': 'a block row whose blocks have different input tree structures, the first nested inside a later one',
    'C07_m1': 'a duplicate-free selection written with an ellipsis ((..., slice), (..., int)) as P @ P.T',
    'C07_m2': 'three or more block operators of one layout whose first block-wise product does not collapse (HWP then rotation, then rotation)',
    'C08_m1': 'a user class tagged triangular through the public decorators, queried through its lazy transpose',
    'C08_m2': 'a broadcast-diagonal operator stretching a unit-length axis, asked whether it is diagonal',
    'C10_m1': 'a block whose input pytree holds a (1,) leaf before other leaves and whose dense form comes from the generic builder (a C04 clause)',
    'C10_m2': 'a legal row-times-column product whose column is nested one level deeper than the row, reduce()d',
    'C12_m1': 'pack_a @ pack_b.T with masks of equal population selecting different elements, reduce()d',
    'C12_m2': 'P.T @ P reduced for an index array on an axis at least two positions before the last (rank >= 3)',
    'C14_m1': 'an upper-case letter as the contracted or the free block label',
    'C14_m2': 'one shared block array on a pytree whose leaves have different shapes (declared output structure: a C05 clause)',
    'C16_m1': 'nside = 64 exactly (the only resolution with 32768 < npix <= 65536)',
    'C16_m2': "a landscape of Stokes kind 'I', 'QU' or 'IQUV' in the SAT acquisition",
    'C20_m1': 'uniform_like / StokesPyTree.uniform with a non-zero lower bound',
    'C20_m2': 'a multi-axis (tuple) index on a Stokes container with >= 2 components of one dtype',
}


def main() -> None:
    mut3 = sys.argv[1]
    runs: dict[str, dict[str, list[tuple[int, str]]]] = {}
    for log in sys.argv[2:]:
        for line in open(log):
            m = re.match(r'RESULT r6(C\d\d)_(m\d) check (C\d\d) tier=quick rc=(\d+) keys=(.*)', line.strip())
            if m:
                p, k, c, rc, keys = m.groups()
                runs.setdefault(f'{p}_{k}', {}).setdefault(c, []).append((int(rc), keys))
    for name, need in sorted(NEEDS.items()):
        p, k = name.split('_')
        src = os.path.join(mut3, p, '_mutants', k)
        if not os.path.exists(os.path.join(src, 'patch.diff')):
            print('missing', name)
            continue
        dst = f'/verif/seeded/{p}_r5{k}'
        os.makedirs(dst, exist_ok=True)
        for f in ('patch.diff', 'demo.py', 'notes.md'):
            if os.path.exists(os.path.join(src, f)):
                shutil.copy(os.path.join(src, f), os.path.join(dst, f))
        r = runs.get(name, {})
        detected = sorted(c for c, v in r.items() if v[-1][0] == 1)
        own_first = r.get(p, [(None, '')])[0][0]
        keys = sorted({kk for c in detected for kk in r[c][-1][1].split(';') if kk})[:6]
        meta = {
            'id': f'{p}_r5{k}', 'property': p, 'round': 5,
            'source': 'independent sub-agent (fifth round) given only the property text, its own scratch worktree, the list of SITES used by the earlier '
                      'rounds, and the request for whatever is still plausible after eighty changes per family (thresholds, keyword values, feature interactions, error handling, shared helpers) (nothing from /verif)',
            'needs_to_manifest': need,
            'what_i_ran': ['demo.py on a scratch worktree with patch.diff applied -> non-zero; on the unchanged tree -> 0',
                           'tools/suite_passes.sh on the patched scratch worktree: every test passing on the unchanged tree (1097) still passes (lost=0)',
                           f'tools/try_mutant.sh r6{name} patch.diff demo.py "<checks>" quick'],
            'detected_by_quick_tier': detected,
            'violation_keys': keys,
            'missed_by_first_version_of_own_check': own_first != 1,
            'runs': {c: [x[0] for x in v] for c, v in r.items()},
        }
        json.dump(meta, open(os.path.join(dst, 'meta.json'), 'w'), indent=1)
        print(name, 'detected by', detected, 'own first rc', own_first)


if __name__ == '__main__':
    main()
