#!/bin/sh
# Runs the repository's own suite (monitors off) and compares with /root/.vp/BASELINE.json stable_pass.
out=$(mktemp -d)
cd /repo && JAX_PLATFORMS=cpu /venv/bin/python -m pytest -q -p no:cacheprovider --timeout=900 --continue-on-collection-errors --junitxml=$out/j.xml >$out/log 2>&1
python3 - "$out/j.xml" <<'PY'
import json, sys, xml.etree.ElementTree as ET
base=set(json.load(open('/root/.vp/BASELINE.json'))['stable_pass'])
passed=set()
for tc in ET.parse(sys.argv[1]).iter('testcase'):
    if not any(ch.tag in('failure','error','skipped') for ch in tc):
        passed.add(tc.get('classname')+'::'+tc.get('name'))
missing=sorted(base-passed)
print('baseline',len(base),'passed now',len(passed),'baseline tests no longer passing:',len(missing))
for m in missing[:20]: print('  ',m)
sys.exit(1 if missing else 0)
PY
rc=$?; rm -rf "$out"; exit $rc
