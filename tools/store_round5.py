#!/usr/bin/env python3
"""Stores the fifth-round seeded changes under /verif/seeded/<P>_r5m{k}/ from the sub-agents' scratch worktrees and the
evaluation logs of tools/try_mutant.sh (lines 'RESULT r3<P>_<k> check <C> tier=quick rc=<n> keys=...').

usage: store_round5.py <mut5 dir> <eval log> [<eval log> ...]   (later logs override the outcome used for 'detected_by',
the FIRST log in which the own-property check appears decides 'missed_by_first_version_of_own_check')."""
import json
import os
import re
import shutil
import sys

NEEDS = {
    'C03_m1': 'a block-diagonal operator one of whose blocks is a composition of symmetric-tagged operators that do not commute, transposed',
    'C03_m2': 'the transpose of the polariser on QU/IQU/IQUV data whose dtype is not the default float (float32 in 64-bit mode, half precision)',
    'C05_m1': 'a move of >= 2 axes with non-increasing destinations on leaves with unequal dimensions (explicit out_structure without the sort)',
    'C05_m2': 'a block operator with exactly one block held in a container, reduce()d (directly or through an enclosing expression)',
    'C06_m1': 'the inverse of a diagonal operator whose values have fewer dimensions than the leaf they multiply',
    'C06_m2': 'the solver-based inverse of P.T @ P (+ ...) for a selection P with repeated AND negative indices (implicit reduce() of the operand)',
    'C09_m1': "method='overlap_save' with an odd user-chosen fft_size",
    'C09_m2': "exactly the method name 'overlap_add'",
    'C11_m1': 'values of rank >= 3 with an explicit axis tuple forming a cycle of length >= 3 ((1, 2, 0))',
    'C11_m2': 'a size-1 values dimension on an axis beyond the rank of a leaf on the right, strict variant',
    'C13_m1': 'the lazy transpose of a reshape that keeps every rank but changes a shape, reduce()d alone or inside a composition',
    'C13_m2': 'two ravels composed back to back, all four axes negative, then reduce()',
    'C15_m1': 'a composition used as ONE item of an explicitly constructed chain (factory output inside CompositionOperator([...])), reduce()d',
    'C15_m2': 'R(a) @ R(b).T formed inside a jit / vmap / scan whose arguments are the angle arrays (equal shapes)',
    'C17_m1': 'an off-axis detector carried numerically onto a pole (vec2dir without normalisation: a C16 mechanism)',
    'C17_m2': 'a raster sampling: co-latitudes (n, 1) against longitudes (1, m)',
    'C18_m1': 'move-axis axes given as a list or range, operator passed as an argument of a filtering jit',
    'C18_m2': 'a user-defined StokesLandscape subclass with a 64-bit dtype round-tripped while 64-bit mode is off',
    'C19_m1': 'arithmetic (scaling, negation, difference) on an inverse created under another configuration',
    'C19_m2': "two threads' blocks overlapping without being globally last-in-first-out (A enter, B enter, A exit, B exit)",
}


def main() -> None:
    mut3 = sys.argv[1]
    runs: dict[str, dict[str, list[tuple[int, str]]]] = {}
    for log in sys.argv[2:]:
        for line in open(log):
            m = re.match(r'RESULT r5(C\d\d)_(m\d) check (C\d\d) tier=quick rc=(\d+) keys=(.*)', line.strip())
            if m:
                p, k, c, rc, keys = m.groups()
                runs.setdefault(f'{p}_{k}', {}).setdefault(c, []).append((int(rc), keys))
    for name, need in sorted(NEEDS.items()):
        p, k = name.split('_')
        src = os.path.join(mut3, p, '_mutants', k)
        if not os.path.exists(os.path.join(src, 'patch.diff')):
            print('missing', name)
            continue
        dst = f'/verif/seeded/{p}_r5{k}'
        os.makedirs(dst, exist_ok=True)
        for f in ('patch.diff', 'demo.py', 'notes.md'):
            if os.path.exists(os.path.join(src, f)):
                shutil.copy(os.path.join(src, f), os.path.join(dst, f))
        r = runs.get(name, {})
        detected = sorted(c for c, v in r.items() if v[-1][0] == 1)
        own_first = r.get(p, [(None, '')])[0][0]
        keys = sorted({kk for c in detected for kk in r[c][-1][1].split(';') if kk})[:6]
        meta = {
            'id': f'{p}_r5{k}', 'property': p, 'round': 5,
            'source': 'independent sub-agent (fifth round) given only the property text, its own scratch worktree, the list of SITES used by the earlier '
                      'rounds, and the request for whatever is still plausible after eighty changes per family (thresholds, keyword values, feature interactions, error handling, shared helpers) (nothing from /verif)',
            'needs_to_manifest': need,
            'what_i_ran': ['demo.py on a scratch worktree with patch.diff applied -> non-zero; on the unchanged tree -> 0',
                           'tools/suite_passes.sh on the patched scratch worktree: every test passing on the unchanged tree (1097) still passes (lost=0)',
                           f'tools/try_mutant.sh r5{name} patch.diff demo.py "<checks>" quick'],
            'detected_by_quick_tier': detected,
            'violation_keys': keys,
            'missed_by_first_version_of_own_check': own_first != 1,
            'runs': {c: [x[0] for x in v] for c, v in r.items()},
        }
        json.dump(meta, open(os.path.join(dst, 'meta.json'), 'w'), indent=1)
        print(name, 'detected by', detected, 'own first rc', own_first)


if __name__ == '__main__':
    main()
