#!/usr/bin/env python3
"""Stores the fourth-round seeded changes under /verif/seeded/<P>_r4m{k}/ from the sub-agents' scratch worktrees and the
evaluation logs of tools/try_mutant.sh (lines 'RESULT r3<P>_<k> check <C> tier=quick rc=<n> keys=...').

usage: store_round4.py <mut4 dir> <eval log> [<eval log> ...]   (later logs override the outcome used for 'detected_by',
the FIRST log in which the own-property check appears decides 'missed_by_first_version_of_own_check')."""
import json
import os
import re
import shutil
import sys

NEEDS = {
    'C01_m1': 'two DIFFERENT pack operators as pack_a @ pack_b.T (a transpose subclass disables the pairing check of the rule)',
    'C01_m2': 'slice-only indexing that keeps every shape but reverses an axis (negative step over a whole axis), then reduce()',
    'C02_m1': 'an identity on the left of @ with an operand whose structure differs only in its container or leaf count ([s] vs s, list vs tuple)',
    'C02_m2': 'the lazy inverse of one diagonal operator next to a DIFFERENT diagonal operator with the same axes (D1.I @ D2)',
    'C04_m1': 'a multi-dimensional diagonal with the shape of the leaf and a permuting axis_destination ((1,0)): mv ignores the axes, as_matrix honours them',
    'C04_m2': 'a block-diagonal operator with >= 2 blocks one of which (not the last) acts on a pytree (dict, Stokes container, nested block operator)',
    'C05_m1': 'a Stokes container whose components have different dtypes under the half-wave plate',
    'C05_m2': 'pack_a @ pack_b.T with masks selecting different numbers of elements, then reduce()',
    'C10_m1': 'a row-times-column product with >= 2 block products that reduce to scalar operators (the sum of scalar terms)',
    'C10_m2': 'block rows/columns whose shared input/output is a pytree: containers differ while the flattened leaves agree',
    'C11_m1': 'a pytree whose leaves have different dtypes, values no wider than the narrowest leaf',
    'C11_m2': 'single-element values on a negative axis lying before the first axis of some leaf (0-d leaves, mixed ranks)',
    'C12_m1': 'P.T @ P reduced for an index array on a non-last axis as long as the last axis ((4,4), (3,5,3))',
    'C12_m2': 'the pair P.T, P becoming adjacent only after what stood between them cancelled (H.T @ H with H = Q @ P)',
    'C13_m1': 'two ravels with negative axes on leaves of rank >= 4 composed and reduce()d (a new merging rule with a wrong overlap test)',
    'C13_m2': 'an input structure with a weakly typed leaf (as_structure of values built from Python scalars), then op @ op.T',
    'C15_m1': 'complex-valued Stokes data through the QU rotation',
    'C15_m2': 'as_matrix() of an unmerged transposed rotation R(a).T with a not a multiple of pi/2',
    'C20_m1': 'QU kind, from_iquv with a dropped component (I or V) wider than Q and U',
    'C20_m2': 'one pytree with two leaves of the same shape and different dtypes through zeros_like',
    'C03_m1': 'an integer index array with negative in-bounds entries as the only leading-axis index, transposed',
    'C03_m2': 'a broadcast-diagonal operator stretching a length-1 axis of a leaf, transposed',
    'C06_m1': 'a move-axis operator with a negative axis on a pytree whose leaves have different ranks, inverted',
    'C06_m2': 'an integer-valued scalar operator (what `2 * op` stores) with |k| >= 2 inverted in closed form',
    'C07_m1': 'an identity PRODUCED by a rule during the scan (cancelling block pair) with at least one neighbour',
    'C07_m2': 'a move of >= 2 axes whose mapping is not order-preserving, next to its transpose',
    'C08_m1': 'a class tagged through the public semidefinite decorators on complex data, Hermitian but not symmetric',
    'C08_m2': 'is_diagonal asked of a sum whose operands are all symmetric-tagged and at least one is not diagonal (Toeplitz)',
    'C14_m1': "default subscripts 'ij...,j...->i...' (or their transpose) with a 2-d block on a leaf of rank >= 3",
    'C14_m2': 'one block array per leaf on a pytree whose leaves have different dtypes, blocks no wider than the narrowest',
    'C16_m1': 'an off-axis detector carried numerically onto a pole (z = 1 + 1 ulp)',
    'C16_m2': '32-bit mode, float32 landscape, nside >= 2048: pixel numbers above 2^24 (ring-index agreement: a C17 clause)',
    'C17_m1': '>= 2 directions per detector and >= 2 samples in the projection operator (a C16 mechanism, invisible to C17)',
    'C17_m2': 'pixel coordinates of a narrow integer dtype (int8/int16) on a map with more pixels than the dtype can count',
    'C18_m1': 'a block row whose blocks are held in a dict with keys not inserted in sorted order, applied under jit or after a round trip',
    'C18_m2': 'NumPy input leaves through a sum of >= 3 terms whose first term returns its input',
    'C19_m1': 'the inverse of a composite next to one of the composite\'s own factor objects, reduced under another configuration',
    'C19_m2': 'a block-diagonal preconditioner in solver_options while the inverse of a block-diagonal operator is taken',
    'C09_m1': 'bfloat16 data with the fft / overlap_save methods',
    'C09_m2': "method='overlap_save' with the default FFT size and K >= 32769",
}


def main() -> None:
    mut3 = sys.argv[1]
    runs: dict[str, dict[str, list[tuple[int, str]]]] = {}
    for log in sys.argv[2:]:
        for line in open(log):
            m = re.match(r'RESULT r4(C\d\d)_(m\d) check (C\d\d) tier=quick rc=(\d+) keys=(.*)', line.strip())
            if m:
                p, k, c, rc, keys = m.groups()
                runs.setdefault(f'{p}_{k}', {}).setdefault(c, []).append((int(rc), keys))
    for name, need in sorted(NEEDS.items()):
        p, k = name.split('_')
        src = os.path.join(mut3, p, '_mutants', k)
        if not os.path.exists(os.path.join(src, 'patch.diff')):
            print('missing', name)
            continue
        dst = f'/verif/seeded/{p}_r4{k}'
        os.makedirs(dst, exist_ok=True)
        for f in ('patch.diff', 'demo.py', 'notes.md'):
            if os.path.exists(os.path.join(src, f)):
                shutil.copy(os.path.join(src, f), os.path.join(dst, f))
        r = runs.get(name, {})
        detected = sorted(c for c, v in r.items() if v[-1][0] == 1)
        own_first = r.get(p, [(None, '')])[0][0]
        keys = sorted({kk for c in detected for kk in r[c][-1][1].split(';') if kk})[:6]
        meta = {
            'id': f'{p}_r4{k}', 'property': p, 'round': 4,
            'source': 'independent sub-agent (fourth round) given only the property text, its own scratch worktree, the list of SITES used by the earlier '
                      'rounds, and the request for changes that only manifest for overlooked input classes (boundary sizes, unusual pytrees, parameter kinds, shared infrastructure, rarely combined entry points) (nothing from /verif)',
            'needs_to_manifest': need,
            'what_i_ran': ['demo.py on a scratch worktree with patch.diff applied -> non-zero; on the unchanged tree -> 0',
                           'tools/suite_passes.sh on the patched scratch worktree: every test passing on the unchanged tree (1097) still passes (lost=0)',
                           f'tools/try_mutant.sh r4{name} patch.diff demo.py "<checks>" quick'],
            'detected_by_quick_tier': detected,
            'violation_keys': keys,
            'missed_by_first_version_of_own_check': own_first != 1,
            'runs': {c: [x[0] for x in v] for c, v in r.items()},
        }
        json.dump(meta, open(os.path.join(dst, 'meta.json'), 'w'), indent=1)
        print(name, 'detected by', detected, 'own first rc', own_first)


if __name__ == '__main__':
    main()
