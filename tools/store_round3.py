#!/usr/bin/env python3
"""Stores the third-round seeded changes under /verif/seeded/<P>_r3m{k}/ from the sub-agents' scratch worktrees and the
evaluation logs of tools/try_mutant.sh (lines 'RESULT r3<P>_<k> check <C> tier=quick rc=<n> keys=...').

usage: store_round3.py <mut3 dir> <eval log> [<eval log> ...]   (later logs override the outcome used for 'detected_by',
the FIRST log in which the own-property check appears decides 'missed_by_first_version_of_own_check')."""
import json
import os
import re
import shutil
import sys

NEEDS = {
    'C01_m1': 'a solver-based inverse of a composite operand built inside one Config block and reduce()d under another configuration',
    'C01_m2': 'a chain whose operands ALL cancel through a block rule whose block products are themselves compositions (re-entrant use of one shared rule object)',
    'C02_m1': 'a scalar that is not exactly representable in the narrowest dtype, on a pytree of mixed dtypes whose first leaf is the narrow one',
    'C02_m2': 'the inverse of one operator next to a DIFFERENT operator of the same class built from the same array object (D0.I @ D1, A.I @ A.T)',
    'C05_m1': 'history: two PackOperators with the same input structure and mask shape but different numbers of selected elements (module-level out_structure memo)',
    'C05_m2': '64-bit mode, float32 band values on float64 data, overlap_save method',
    'C06_m1': 'history: op.I taken twice on the same operand object under different solver settings',
    'C06_m2': 'a block-diagonal mixing a solver-inverted (SPD) block with a closed-form block that is not SPD (rotation, diagonal with zeros)',
    'C07_m1': 'history: a near miss of the class pair (P @ Q.T with Q is not P) reduced earlier in the same process poisons the rule for genuine P @ P.T',
    'C07_m2': 'adjacent QU rotations whose angle arrays have mutually non-dominating shapes ((ndet,1) next to (nsample,))',
    'C10_m1': 'a fully cancelling chain of block operators whose blocks are compositions (shared stateful rule object re-entered by the block rule)',
    'C10_m2': 'one chain with a layout-mismatched block pair followed by a reducible pair of the same two block classes',
    'C12_m1': 'P @ Q.T / Q.T @ P for two different index operators whose indices differ only by an integer or a slice',
    'C12_m2': 'history: a second PackOperator with the same mask shape but another population count (out_structure memoised per abstract value)',
    'C16_m1': 'samples with a negative co-latitude (scan across the pole) and an off-axis detector',
    'C16_m2': 'a detector exactly on the optical axis (x = y = 0)',
    'C18_m1': 'history: a lazily transposed operator applied first inside a jit closing over a constant input, then eagerly',
    'C18_m2': 'a sorted integer index array with a repeated entry and a gap whose first, last and length look like a range ([0, 0, 2])',
    'C19_m1': 'history: the same operand object inverted twice through .I under different configurations while the first inverse is alive',
    'C19_m2': 'reduce() of a lazy inverse of a composite operand outside the block it was built in',
    'C03_m1': 'history: a QU rotation built from an angle array, transposed and dropped, then another one whose array re-uses the same id()',
    'C03_m2': "method='overlap_save' with an odd user-chosen fft_size",
    'C04_m1': "method='overlap_save' with fft_size between the minimum 2K-1 and twice the overlap",
    'C04_m2': 'as_matrix() of the lazy inverse of a symmetric-tagged operand that is not positive definite (Toeplitz bands [-4, 1, .5])',
    'C08_m1': 'a Toast observation matrix file holding a rectangular matrix (rarely used constructor path)',
    'C08_m2': 'a block-diagonal operator whose blocks are held in a dict or in nested containers, asked for a lineax tag',
    'C09_m1': 'batched band values where one row has exact trailing zeros and another row has not',
    'C09_m2': "exactly the method name 'overlap_add' (documented but deliberately disabled)",
    'C11_m1': 'the inverse (.I) of a diagonal operator with non-negative axes applied to a pytree whose leaves have different ranks',
    'C11_m2': 'values of a wider or different kind than a leaf (complex on real, float32 on float16, fractional on integer), DiagonalOperator only',
    'C13_m1': 'a reshape with a fully specified target equal to the shape of the FIRST leaf (flattening order) but not of a later one, then reduce()',
    'C13_m2': 'a reshape that keeps every rank but changes a shape ((2,3) -> (3,2)), then .T',
    'C14_m1': 'the transpose of a subscript string for which no rewriting exists (must be refused), integer data',
    'C14_m2': 'blocks strictly wider than the data (float64 blocks on float32 leaves in 64-bit mode, float32 on float16 otherwise)',
    'C15_m1': 'history: a factory-built chain used as the LEFT factor of a product and then used again',
    'C15_m2': 'the polariser factory with a 1-d angle array on a detector/sample shape whose first and last lengths coincide',
    'C17_m1': 'a non-HEALPix landscape and a sampling with longitudes outside [0, 2 pi)',
    'C17_m2': 'an off-axis detector carried numerically onto a pole (z = 1 + 1 ulp): outside C17 proper, a C16 mechanism (vec2dir)',
    'C20_m1': 'a weakly typed leaf next to a narrower strongly typed leaf in as_promoted_dtype',
    'C20_m2': 'history: the same request before and after a switch of the 64-bit mode, or fill value -0.0 after 0',
}


def main() -> None:
    mut3 = sys.argv[1]
    runs: dict[str, dict[str, list[tuple[int, str]]]] = {}
    for log in sys.argv[2:]:
        for line in open(log):
            m = re.match(r'RESULT r3(C\d\d)_(m\d) check (C\d\d) tier=quick rc=(\d+) keys=(.*)', line.strip())
            if m:
                p, k, c, rc, keys = m.groups()
                runs.setdefault(f'{p}_{k}', {}).setdefault(c, []).append((int(rc), keys))
    for name, need in sorted(NEEDS.items()):
        p, k = name.split('_')
        src = os.path.join(mut3, p, '_mutants', k)
        if not os.path.exists(os.path.join(src, 'patch.diff')):
            print('missing', name)
            continue
        dst = f'/verif/seeded/{p}_r3{k}'
        os.makedirs(dst, exist_ok=True)
        for f in ('patch.diff', 'demo.py', 'notes.md'):
            if os.path.exists(os.path.join(src, f)):
                shutil.copy(os.path.join(src, f), os.path.join(dst, f))
        r = runs.get(name, {})
        detected = sorted(c for c, v in r.items() if v[-1][0] == 1)
        own_first = r.get(p, [(None, '')])[0][0]
        keys = sorted({kk for c in detected for kk in r[c][-1][1].split(';') if kk})[:6]
        meta = {
            'id': f'{p}_r3{k}', 'property': p, 'round': 3,
            'source': 'independent sub-agent (third round) given only the property text, its own scratch worktree, the list of SITES used by the earlier '
                      'rounds, and the request for history-dependent / two-site / dtype-mode / rarely-used-entry-point changes (nothing from /verif)',
            'needs_to_manifest': need,
            'what_i_ran': ['demo.py on a scratch worktree with patch.diff applied -> non-zero; on the unchanged tree -> 0',
                           'tools/suite_passes.sh on the patched scratch worktree: every test passing on the unchanged tree (1097) still passes (lost=0)',
                           f'tools/try_mutant.sh r3{name} patch.diff demo.py "<checks>" quick'],
            'detected_by_quick_tier': detected,
            'violation_keys': keys,
            'missed_by_first_version_of_own_check': own_first != 1,
            'runs': {c: [x[0] for x in v] for c, v in r.items()},
        }
        json.dump(meta, open(os.path.join(dst, 'meta.json'), 'w'), indent=1)
        print(name, 'detected by', detected, 'own first rc', own_first)


if __name__ == '__main__':
    main()
