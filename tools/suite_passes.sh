#!/bin/sh
# usage: suite_passes.sh <tree> <out.txt>   -> sorted list of passing test ids of the repository suite run on <tree>
tree=$1; out=$2; tmp=$(mktemp -d)
(cd $tree && PYTHONPATH=$tree/src JAX_PLATFORMS=cpu /venv/bin/python -m pytest -q -p no:cacheprovider --timeout=900 --continue-on-collection-errors --color=no --junitxml=$tmp/j.xml >$tmp/log 2>&1)
python3 - $tmp/j.xml > $out <<'PY'
import sys, xml.etree.ElementTree as ET
ok=[]
for tc in ET.parse(sys.argv[1]).iter('testcase'):
    if not any(ch.tag in('failure','error','skipped') for ch in tc): ok.append(tc.get('classname')+'::'+tc.get('name'))
print('\n'.join(sorted(ok)))
PY
rm -rf $tmp
