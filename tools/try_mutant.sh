#!/bin/sh
# usage: try_mutant.sh <name> <patch.diff> <demo.py> "<check ids...>" [tier]
# Applies a seeded change to a scratch worktree of /repo (never to /repo itself), confirms the
# demonstration fails with it, runs the given checks against the scratch tree and prints one line per check.
name=$1; patch=$2; demo=$3; checks=$4; tier=${5:-quick}
wt=/tmp/mwt-$name
git -C /repo worktree remove --force $wt >/dev/null 2>&1
git -C /repo worktree add -q --detach $wt HEAD || exit 3
if ! git -C $wt apply --whitespace=nowarn $patch 2>/tmp/mwt-$name.apply; then
  if ! (cd $wt && patch -p1 -s < $patch >/tmp/mwt-$name.apply 2>&1); then
    echo "RESULT $name patch-does-not-apply: $(head -c 300 /tmp/mwt-$name.apply)"; git -C /repo worktree remove --force $wt; exit 3
  fi
fi
mkdir -p $wt/_mutants/x && cp $demo $wt/_mutants/x/demo.py
(cd $wt && PYTHONPATH=$wt/src JAX_PLATFORMS=cpu timeout 900 /venv/bin/python _mutants/x/demo.py >/tmp/mwt-$name.demo 2>&1); drc=$?
(cd /repo && PYTHONPATH=/repo/src JAX_PLATFORMS=cpu timeout 900 /venv/bin/python $demo >/tmp/mwt-$name.demo0 2>&1); drc0=$?
echo "RESULT $name demo: with-change rc=$drc  without-change rc=$drc0"
for c in $checks; do
  (cd ${VERIF_DIR:-/verif} && FVM_REPO=$wt ./check $c --tier $tier > /tmp/mwt-$name.$c.log 2>&1); rc=$?
  keys=$(grep "witness \[" /tmp/mwt-$name.$c.log | sed 's/.*witness \[\([^]]*\)\].*/\1/' | sort -u | head -6 | tr '\n' ';')
  echo "RESULT $name check $c tier=$tier rc=$rc keys=$keys"
done
git -C /repo worktree remove --force $wt
rm -rf ${VERIF_DIR:-/verif}/.scratch/evidence-mwt-$name
