#!/bin/sh
# usage: tools/sweep.sh <tier> "<seeds>" ["<ids>"]  -> runs the checks on the unchanged tree and prints one line per run
tier=$1; seeds=$2; ids=${3:-"C01 C02 C03 C04 C05 C06 C07 C08 C09 C10 C11 C12 C13 C14 C15 C16 C17 C18 C19 C20"}
for s in $seeds; do for p in $ids; do
  t0=$(date +%s); VERIF_SEED=$s ./check $p --tier $tier > /tmp/sweep_${tier}_${s}_$p.log 2>&1; rc=$?
  echo "SWEEP tier=$tier seed=$s $p rc=$rc wall=$(( $(date +%s) - t0 ))s $(grep -c '^VIOLATION' /tmp/sweep_${tier}_${s}_$p.log) violations $(grep '^INCONCLUSIVE' /tmp/sweep_${tier}_${s}_$p.log | head -2 | cut -c1-160 | tr '\n' ' ')"
done; done
echo SWEEPDONE
