#!/usr/bin/env python3
"""Validates MANIFEST.json and every evidence/<id>.json against the schemas in /root/.vp (run with python3-vt, which has jsonschema)
and prints one line per property: tier, seed, verdict, evaluations, distinct non-trivial cases, anchored functions missed."""
import glob
import json
import sys

import jsonschema

man = json.load(open('/verif/MANIFEST.json'))
jsonschema.validate(man, json.load(open('/root/.vp/MANIFEST.schema.json')))
schema = json.load(open('/root/.vp/EVIDENCE.schema.json'))
bad = 0
for f in sorted(glob.glob('/verif/evidence/C*.json')):
    e = json.load(open(f))
    try:
        jsonschema.validate(e, schema)
        ok = 'valid'
    except jsonschema.ValidationError as exc:
        ok = 'INVALID: ' + str(exc.message)[:80]
        bad += 1
    c = e['coverage']
    missed = [k for k, v in c.get('anchored_functions_reached', {}).items() if not v]
    if c.get('verdict') != 'held-on-observed':
        bad += 1
    print(f"{e['property_id']} {e['tier']:8s} seed={e['seed']} {c.get('verdict'):17s} evaluations={c['evaluations']:8d} "
          f"distinct_nontrivial={c['distinct_nontrivial']:5d} functions={c.get('library_functions_executed')} {ok} {missed or ''}")
print('manifest valid;', 'PROBLEMS' if bad else 'all evidence valid and held-on-observed')
sys.exit(1 if bad else 0)
