#!/bin/sh
# applies each own mutant to a scratch worktree and runs the listed checks
cd /verif/seeded/own
/venv/bin/python - <<'PY'
import subprocess, sys, os
sys.path.insert(0,'/verif/seeded/own')
from mutants import M
for name, f, old, new, checks in M:
    wt=f'/tmp/owt-{name}'
    subprocess.run(['git','-C','/repo','worktree','remove','--force',wt],capture_output=True)
    subprocess.run(['git','-C','/repo','worktree','add','-q','--detach',wt,'HEAD'],check=True)
    p=os.path.join(wt,f); s=open(p).read()
    if old not in s:
        print(f'OWN {name} SOURCE-TEXT-NOT-FOUND', flush=True); subprocess.run(['git','-C','/repo','worktree','remove','--force',wt]); continue
    open(p,'w').write(s.replace(old,new,1))
    imp=subprocess.run(['/venv/bin/python','-c','import furax, furax.operators.toeplitz, furax.projections, furax.instruments.sat'],env={**os.environ,'PYTHONPATH':wt+'/src','JAX_PLATFORMS':'cpu'},capture_output=True,text=True)
    if imp.returncode!=0:
        print(f'OWN {name} DOES-NOT-IMPORT {imp.stderr[-200:]}', flush=True); subprocess.run(['git','-C','/repo','worktree','remove','--force',wt]); continue
    for c in checks.split():
        r=subprocess.run(['./check',c,'--tier','quick'],cwd='/verif',env={**os.environ,'FVM_REPO':wt},capture_output=True,text=True)
        keys=sorted({l.split('[')[1].split(']')[0] for l in r.stdout.splitlines() if 'witness [' in l})[:4]
        print(f'OWN {name} check {c} rc={r.returncode} keys={keys}', flush=True)
    subprocess.run(['git','-C','/repo','worktree','remove','--force',wt])
    subprocess.run(['rm','-rf',f'/verif/.scratch/evidence-owt-{name}'])
print('OWNDONE')
PY
