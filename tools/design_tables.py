#!/usr/bin/env python3
"""Regenerates the tables of DESIGN.md section 8 from seeded/*/meta.json (between '### Round 1' and the first
'### Strengthenings' heading)."""
import glob
import json
import re

ROOT = '/verif'


def row(m: dict) -> str:
    runs = m.get('runs', {}).get(m['property'], [])
    first = runs[0] if runs else '-'
    first = {1: 1, 0: 0, 2: 2}.get(first, first)
    key = (m.get('violation_keys') or [''])[0]
    return f"| {m['id']} | {m['needs_to_manifest']} | {', '.join(m['detected_by_quick_tier']) or '**none**'} | {first} | `{key}` |"


def main() -> None:
    metas = [json.load(open(f)) for f in sorted(glob.glob(f'{ROOT}/seeded/*/meta.json'))]
    rounds: dict[int, list[dict]] = {1: [], 2: [], 3: [], 4: [], 5: []}
    for m in metas:
        rounds[int(m.get('round', 1))].append(m)
    head = '| change | needs, in order to manifest | caught by (quick tier) | first | typical mechanism key |\n|---|---|---|---|---|\n'
    titles = {1: '### Round 1', 2: '### Round 2 (different sites, subtler)',
              3: '### Round 3 (histories, caches, re-entrancy, two cooperating sites, dtype/mode combinations, rarely used entry points)',
              4: '### Round 4 (overlooked input classes: boundary sizes, unusual pytrees, parameter kinds, shared infrastructure, rarely combined entry points)',
              5: '### Round 5 (ten properties: thresholds, keyword values, feature interactions, error handling, shared helpers)'}
    out = ''
    for r in (1, 2, 3, 4, 5):
        if rounds[r]:
            out += f'{titles[r]}\n\n{head}' + '\n'.join(row(m) for m in rounds[r]) + '\n\n'
    s = open(f'{ROOT}/DESIGN.md').read()
    a = s.index('### Round 1')
    b = s.index('### Strengthenings prompted by the first-round misses')
    open(f'{ROOT}/DESIGN.md', 'w').write(s[:a] + out + s[b:])
    for r in (1, 2, 3, 4, 5):
        ms = rounds[r]
        print(f'round {r}: {len(ms)} changes, detected {sum(1 for m in ms if m["detected_by_quick_tier"])}, '
              f'by own check {sum(1 for m in ms if m["property"] in m["detected_by_quick_tier"])}, '
              f'own check missed at first run {sum(1 for m in ms if m.get("missed_by_first_version_of_own_check"))}')


if __name__ == '__main__':
    main()
